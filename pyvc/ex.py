"""pyvc.ex -- the symbolic executor (statements, frames, decisions, contracts, loops).

Forking is done by *re-execution under a decision trace*: every symbolic branch asks `decide(cond)`;
the driver explores all feasible decision sequences depth-first, re-running the function from the
start for each. Obligations are emitted only after the replayed prefix, so each is generated once."""
from __future__ import annotations

import ast

import z3

from . import api
from .ops import NOCONST, concrete_of, eq, merge, simp, truthy
from .resolve import ClassInfo, FuncInfo, ModuleInfo, Repo
from .run import (BreakSig, ContinueSig, Infeasible, Obligation, RaiseSig, ReturnSig, Run, feasible)
from .ty import (Any, Bool, Dict, Int, NodeTy, NoneT, Opt, Rec, SeqOf, Str, TupleOf, Ty, Unsupported, V, VAny, VBool,
                 VClass, VConst, VDict, VExc, VFunc, VInt, VList, VNode, VNone, VOpaque, VOpt, VRec, VStr, VTuple,
                 fresh_name, lift)
from .ex_expr import ExprMixin
from .ex_call import CallMixin

MAX_PATHS = 4000

EXC_PARENTS = {
    "KeyError": "LookupError", "IndexError": "LookupError", "LookupError": "Exception",
    "ValueError": "Exception", "TypeError": "Exception", "AttributeError": "Exception",
    "UnicodeDecodeError": "ValueError", "UnicodeError": "ValueError", "OSError": "Exception",
    "FileNotFoundError": "OSError", "PermissionError": "OSError", "IOError": "OSError",
    "SyntaxError": "Exception", "RecursionError": "RuntimeError", "RuntimeError": "Exception",
    "StopIteration": "Exception", "ZeroDivisionError": "ArithmeticError", "ArithmeticError": "Exception",
    "AssertionError": "Exception", "NotImplementedError": "RuntimeError", "SystemExit": "BaseException",
    "Exception": "BaseException", "KeyboardInterrupt": "BaseException", "MemoryError": "Exception",
    "YAMLError": "Exception", "JSONDecodeError": "ValueError", "TOMLDecodeError": "ValueError",
    "ConfigParseError": "Exception", "error": "Exception", "ImportError": "Exception",
    "UsageError": "Exception", "Exit": "BaseException", "BadParameter": "UsageError",
}


def exc_is(cls, handler):
    c = cls
    while c is not None:
        if c == handler:
            return True
        c = EXC_PARENTS.get(c)
    return False


class Frame:
    def __init__(self, module, func=None, parent=None, is_spec=False, self_cls=None):
        self.env: dict[str, V] = {}
        self.module = module
        self.func = func
        self.parent = parent  # lexical parent (closures)
        self.is_spec = is_spec
        self.self_cls = self_cls
        self.nonlocals: set = set()
        self.loop_counter = 0
        self.contract = None

    def lookup(self, name):
        f = self
        while f is not None:
            if name in f.env:
                return f.env[name]
            f = f.parent
        return None

    def assign(self, name, v):
        if name in self.nonlocals:
            f = self.parent
            while f is not None:
                if name in f.env:
                    f.env[name] = v
                    return
                f = f.parent
        self.env[name] = v


class SpecModule:
    """A sidecar contracts module seen as a ModuleInfo (spec functions are resolved in it)."""


class Exec(ExprMixin, CallMixin):
    def __init__(self, repo: Repo, verif_root: str):
        self.repo = repo
        self.verif_root = verif_root
        self.obligations: list[Obligation] = []
        self.run: Run | None = None
        self.cur_func = ""
        self.spec_depth = 0  # >0: evaluating contract text (specs are total by convention: no safety obligations)
        self.merge_depth = 0  # >0: inside a RecFunction body, no forking allowed
        self.assumed_used: set = set()
        self.external_used: set = set()
        self.ufs_used: set = set()
        self.inlined: set = set()
        self.recfuns: dict = {}
        self.spec_modules: dict[str, ModuleInfo] = {}
        self.module_const_cache: dict = {}
        self.call_depth = 0
        self.ob_counter: dict = {}
        self.paths = 0
        self.input_syms: dict = {}

    # ------------------------------------------------------------------ decisions / obligations
    def decide(self, cond, assume_both=False) -> bool:
        """assume_both: explore both outcomes without asking the solver whether they are feasible. Always sound (an
        infeasible path only yields obligations with an unsatisfiable path condition); used for the empty / non-empty
        split of a loop over `rest` when the contract opts in with loop_split_unchecked=True."""
        c = simp(cond)
        if z3.is_true(c):
            return True
        if z3.is_false(c):
            return False
        if self.merge_depth > 0:
            raise Unsupported("symbolic branch inside a recursive spec function body (use a conditional expression)")
        run = self.run
        if run.pos < len(run.trace):
            choice = run.trace[run.pos][0]
        else:
            if assume_both:
                ft = ff = True
            else:
                ft = feasible(run.pc + run.ctx, c)
                ff = feasible(run.pc + run.ctx, z3.Not(c))
            if not ft and not ff:
                if run.ctx:
                    return True  # dead operand of a short-circuit expression: its value is irrelevant
                raise Infeasible()
            if ft and ff:
                run.trace.append([True, True])
            else:
                run.trace.append([ft, False])
            choice = run.trace[run.pos][0]
        run.pos += 1
        run.pc.append(c if choice else z3.Not(c))
        return choice

    def known(self, cond):
        """True / False when the current path condition decides `cond`, None otherwise. Never forks."""
        c = simp(cond)
        if z3.is_true(c):
            return True
        if z3.is_false(c):
            return False
        pc = list(self.run.pc) + list(self.run.ctx)
        if not feasible(pc, z3.Not(c)):
            return True
        if not feasible(pc, c):
            return False
        return None

    def assume(self, cond):
        c = simp(cond)
        if z3.is_true(c):
            return
        if self.merge_depth > 0:
            # under a binder / inside a spec function body: the fact is local to that scope
            self.run.ctx.append(c)
            return
        if self.run.ctx:
            c = simp(z3.Implies(z3.And(self.run.ctx), c))
            if z3.is_true(c):
                return
        if z3.is_false(c):
            raise Infeasible()
        self.run.pc.append(c)

    def oblige(self, kind, goal, lineno=0, note="", carries=True, label=None):
        if not self.run.emitting():
            return
        g = simp(goal)
        base = f"{self.cur_func}/{label or kind}"
        n = self.ob_counter.get(base, 0)
        self.ob_counter[base] = n + 1
        name = f"{base}#{n}"
        ob = Obligation(name=name, kind=kind, pc=list(self.run.pc) + list(self.run.ctx), goal=g, func=self.cur_func, lineno=lineno,
                        note=note, carries_property=carries, inputs=dict(self.input_syms))
        self.obligations.append(ob)

    def safety(self, cond, what, lineno=0):
        """A run-time error condition of Python: must be impossible (cond must hold) on this path."""
        if self.merge_depth > 0 or self.spec_depth > 0:
            return
        c = simp(cond)
        if z3.is_true(c):
            return
        tc = getattr(self, "top_contract", None)
        if tc is not None and tc.opts.get("dynamic_type_errors") == "raise" and what.startswith("type("):
            # opt-in (contract option dynamic_type_errors="raise"): a dynamically typed value of the wrong type is not
            # excluded by an obligation but followed as what Python does -- TypeError/AttributeError, modelled as
            # TypeError (the function must then declare it, or an ancestor class, in raises=[...])
            self.maybe_raise(c, "TypeError", lineno)
            return
        self.oblige("safe", c, lineno, note=what, label=f"safe.{what.split()[0]}@L{lineno}")
        self.assume(c)

    def maybe_raise(self, cond_ok, exc_cls, lineno=0, msg=None):
        """Python raises exc_cls unless cond_ok. Forks: the exceptional edge is followed like any other."""
        if self.merge_depth > 0 or self.spec_depth > 0:
            return  # contract text is total by convention (guards are the author's responsibility)
        if self.decide(cond_ok):
            return
        raise RaiseSig(VExc(exc_cls, msg))

    # ------------------------------------------------------------------ driver
    def explore(self, body_fn):
        """Run body_fn() once per feasible decision sequence."""
        prefix = []
        while True:
            self.run = Run(prefix)
            self.paths += 1
            if self.paths > MAX_PATHS:
                raise Unsupported(f"more than {MAX_PATHS} paths")
            try:
                body_fn()
            except Infeasible:
                pass
            tr = self.run.trace
            while tr and not tr[-1][1]:
                tr.pop()
            if not tr:
                break
            tr[-1] = [not tr[-1][0], False]
            prefix = tr

    # ------------------------------------------------------------------ statements
    def exec_block(self, stmts, fr: Frame):
        for st in stmts:
            self.exec_stmt(st, fr)

    def exec_stmt(self, st, fr: Frame):
        m = getattr(self, "st_" + type(st).__name__, None)
        if m is None:
            raise Unsupported(f"statement {type(st).__name__} at line {st.lineno}")
        m(st, fr)

    def st_Pass(self, st, fr):
        pass

    def st_Expr(self, st, fr):
        if isinstance(st.value, ast.Constant):
            return
        self.eval(st.value, fr)

    def st_Return(self, st, fr):
        raise ReturnSig(self.eval(st.value, fr) if st.value is not None else VNone())

    def st_Break(self, st, fr):
        raise BreakSig()

    def st_Continue(self, st, fr):
        raise ContinueSig()

    def st_Nonlocal(self, st, fr):
        fr.nonlocals.update(st.names)

    def st_Global(self, st, fr):
        raise Unsupported("global statement")

    def st_Import(self, st, fr):
        for a in st.names:
            fr.env[a.asname or a.name.split(".")[0]] = VConst(("ext", a.name if a.asname else a.name.split(".")[0]))

    def st_ImportFrom(self, st, fr):
        for a in st.names:
            v = self.resolve_import(fr.module, st.module or "", a.name, st.level)
            fr.env[a.asname or a.name] = v

    def st_Assert(self, st, fr):
        c = truthy(self.eval(st.test, fr))
        if fr.is_spec:
            self.assume(c)
            return
        self.maybe_raise(c, "AssertionError", st.lineno)

    def st_Assign(self, st, fr):
        v = self.eval(st.value, fr)
        for tgt in st.targets:
            self.assign_target(tgt, self._adapt_local(tgt, v, fr), fr)

    def _adapt_local(self, tgt, v, fr):
        """A dict display bound to a local that the contract types as Dict is represented as a symbolic dict
        (so that it can be indexed with non-constant keys)."""
        c = getattr(fr, "contract", None)
        if c is not None and isinstance(tgt, ast.Name) and c.types.get(tgt.id) is Dict and isinstance(v, VRec) and v.ty.as_dict \
                and not fr.is_spec:
            return self.adapt_arg(v, Dict)
        from .ty import MapOf
        if c is not None and isinstance(tgt, ast.Name) and isinstance(c.types.get(tgt.id), MapOf) and isinstance(v, VRec) \
                and v.ty.as_dict and not v.fields and not fr.is_spec:
            return c.types[tgt.id].empty()  # `{}` bound to a local the contract types as a MapOf
        return v

    def st_AnnAssign(self, st, fr):
        if st.value is None:
            return
        v = self.eval(st.value, fr)
        if isinstance(v, VList) and v.items == [] and v.elem is None:
            v.elem = self.elem_type_from_annotation(st.annotation, fr)
        if ast.unparse(st.annotation) == "set[str]" and isinstance(v, VConst) and v.py == frozenset():
            # a growing set of strings: modelled by the sequence of added elements; only `x in s`, `s.add(x)` and
            # any()/all() over it are allowed (len / iteration / indexing would observe duplicates and order)
            v = VList(Str, items=[])
            v.is_set = True
        self.assign_target(st.target, self._adapt_local(st.target, v, fr), fr)

    def st_AugAssign(self, st, fr):
        cur = self.eval(_as_load(st.target), fr)
        rhs = self.eval(st.value, fr)
        if isinstance(cur, VList) and isinstance(st.op, ast.Add):
            self.list_extend(cur, rhs)
            return
        if isinstance(st.op, ast.BitOr) and (isinstance(cur, VDict) or (isinstance(cur, VAny) and type(cur).__name__ == "VAnyRef")):
            # d |= other: dict.__ior__ merges IN PLACE -- every alias of d (the caller's dict included) sees the change
            d = cur if isinstance(cur, VDict) else self.dict_view(cur)
            self.dict_method(d, "update", [rhs], {}, st.lineno)
            return
        v = self.binop(st.op, cur, rhs, st.lineno)
        self.assign_target(st.target, v, fr)

    def st_Delete(self, st, fr):
        raise Unsupported("del statement")

    def st_FunctionDef(self, st, fr):
        info = FuncInfo(f"{str(self.cur_func).split('~')[0]}.{st.name}", fr.module, st, kind="nested")  # (view tag dropped)
        fr.env[st.name] = VFunc(info, closure=fr)

    def st_If(self, st, fr):
        c = truthy(self.eval(st.test, fr))
        if self.decide(c):
            self.exec_block(st.body, fr)
        else:
            self.exec_block(st.orelse, fr)

    def st_Raise(self, st, fr):
        if st.exc is None:
            cur = fr.lookup("__current_exception__")
            if cur is None:
                raise Unsupported("bare raise outside handler")
            raise RaiseSig(cur)
        v = self.eval(st.exc, fr)
        if isinstance(v, VClass):
            v = VExc(_cls_name(v))
        if not isinstance(v, VExc):
            raise Unsupported(f"raise of non-exception {v}")
        raise RaiseSig(v)

    def st_Try(self, st, fr):
        try:
            try:
                self.exec_block(st.body, fr)
            except RaiseSig as rs:
                handled = False
                for h in st.handlers:
                    names = _handler_names(h)
                    if names is None or any(exc_is(rs.exc.cls, n) for n in names):
                        handled = True
                        if h.name:
                            fr.env[h.name] = rs.exc
                        saved = fr.env.get("__current_exception__")
                        fr.env["__current_exception__"] = rs.exc
                        try:
                            self.exec_block(h.body, fr)
                            self._note_swallowed(rs)
                        except RaiseSig:
                            raise  # re-raised / replaced by another exception: not swallowed
                        except (ReturnSig, BreakSig, ContinueSig):
                            self._note_swallowed(rs)  # the handler leaves by return / break / continue
                            raise
                        finally:
                            if saved is None:
                                fr.env.pop("__current_exception__", None)
                            else:
                                fr.env["__current_exception__"] = saved
                        break
                if not handled:
                    raise
            else:
                self.exec_block(st.orelse, fr)
        finally:
            if st.finalbody:
                # a Signal propagating through finally: run the finaliser, then continue propagating
                self.exec_block(st.finalbody, fr)

    def _note_swallowed(self, rs):
        """An exception was caught by a handler of the code under proof that did not re-raise: contracts can see the
        classes swallowed on this path through the spec parameter `caught` (a tuple of class names, in order)."""
        lst = self.run.__dict__.setdefault("caught", [])
        lst.append(rs.exc.cls)

    def st_With(self, st, fr):
        if len(st.items) == 1 and isinstance(st.items[0].context_expr, ast.Call):
            call = st.items[0].context_expr
            fn = call.func
            fname = fn.id if isinstance(fn, ast.Name) else getattr(fn, "attr", "")
            if fname == "suppress":
                names = [a.id if isinstance(a, ast.Name) else a.attr for a in call.args]
                try:
                    self.exec_block(st.body, fr)
                except RaiseSig as rs:
                    if not any(exc_is(rs.exc.cls, n) for n in names):
                        raise
                    self._note_swallowed(rs)
                return
        self.with_external(st, fr)

    # ------------------------------------------------------------------ loops
    def next_loop_index(self, fr):
        k = fr.loop_counter
        fr.loop_counter += 1
        return k

    def st_While(self, st, fr):
        k = self._loop_ordinal(st, fr)
        contract = fr.contract
        inv = contract.methods.get(f"inv{k}") if contract else None
        if inv is None:
            raise Unsupported(f"while loop #{k} at line {st.lineno} of {self.cur_func} has no invariant (inv{k})")
        var = contract.methods.get(f"var{k}")
        self._check_inv(contract, inv, fr, {}, "loop%d.init" % k, st.lineno)
        self._havoc_assigned(st, fr, contract)
        self._assume_spec(contract, inv, fr, {})
        c = truthy(self.eval(st.test, fr))
        if not self.decide(c):
            self.exec_block(st.orelse, fr)
            return
        v0 = None
        if var is not None:
            v0 = self._eval_spec_method(contract, var, fr, {})
            self.oblige("loop.variant", v0.t >= 0, st.lineno, carries=False, label=f"loop{k}.variant.nonneg")
        try:
            self.exec_block(st.body, fr)
        except ContinueSig:
            pass
        except BreakSig:
            return
        self._check_inv(contract, inv, fr, {}, "loop%d.preserve" % k, st.lineno)
        if var is not None:
            v1 = self._eval_spec_method(contract, var, fr, {})
            self.oblige("loop.variant", v1.t < v0.t, st.lineno, carries=False, label=f"loop{k}.variant.decrease")
        raise Infeasible()  # cut: the arbitrary iteration ends here

    def _loop_ordinal(self, st, fr):
        """Ordinal of the loop among the for/while loops *that need an invariant* is by source order of all loops."""
        node = fr.func.node if fr.func else None
        if node is None:
            raise Unsupported("loop outside function")
        loops = [n for n in ast.walk(node) if isinstance(n, (ast.For, ast.While))]
        loops.sort(key=lambda n: (n.lineno, n.col_offset))
        for i, n in enumerate(loops):
            if n is st:
                return i
        raise Unsupported("loop not found")

    def st_For(self, st, fr):
        enum_start = None
        ie = st.iter
        if (isinstance(ie, ast.Call) and isinstance(ie.func, ast.Name) and ie.func.id == "enumerate"
                and fr.lookup("enumerate") is None and 1 <= len(ie.args) <= 2 and all(k.arg == "start" for k in ie.keywords)):
            inner = self.eval(ie.args[0], fr)
            if isinstance(inner, VList) and self.concrete_items(inner) is None:
                # `for i, x in enumerate(seq, start)` over a z3 sequence: i = start + (number of elements consumed)
                sv = self.eval(ie.args[1], fr) if len(ie.args) == 2 else (self.eval(ie.keywords[0].value, fr) if ie.keywords else lift(0))
                if not isinstance(sv, (VInt, VBool)):
                    raise Unsupported("enumerate() with a non-integer start")
                from .ty import coerce as _coerce
                enum_start = _coerce(sv, Int).t
                it = inner
        if enum_start is None:
            it = self.eval(st.iter, fr)
        items = self.concrete_items(it)
        if items is not None:
            broke = False
            for x in items:
                self.assign_target(st.target, x, fr)
                try:
                    self.exec_block(st.body, fr)
                except ContinueSig:
                    continue
                except BreakSig:
                    broke = True
                    break
            if not broke:
                self.exec_block(st.orelse, fr)
            return
        from .ty import VRange
        if isinstance(it, VRange):
            return self._for_range(st, fr, it)
        if isinstance(it, VAny) and isinstance(st.target, ast.Name) and fr.contract is not None \
                and fr.contract.types.get(st.target.id) in (Str, Any):
            # iterating a dynamically typed value: the declared type of the loop variable selects the list view; that the
            # value really is such a list is a safety obligation (iterating anything else is a TypeError or worse)
            from .ty import ValSort, coerce
            ety = fr.contract.types[st.target.id]
            self.safety(ValSort.is_LS(it.t) if ety is Str else ValSort.is_LV(it.t),
                        f"iterate dynamic value as list[{'str' if ety is Str else 'Any'}]", st.lineno)
            it = coerce(VAny(it.t), SeqOf(ety))
        if not isinstance(it, VList):
            raise Unsupported(f"for-loop over {it} at line {st.lineno}")
        k = self._loop_ordinal(st, fr)
        contract = fr.contract
        inv = contract.methods.get(f"inv{k}") if contract else None
        if inv is None:
            raise Unsupported(f"for loop #{k} at line {st.lineno} of {self.cur_func} has no invariant (inv{k})")
        elem = it.elem
        whole = it.term()
        ssort = whole.sort()
        empty = z3.Empty(ssort)
        extra = {"done": VList(elem, seq=empty), "rest": VList(elem, seq=whole)}
        self._check_inv(contract, inv, fr, extra, "loop%d.init" % k, st.lineno)
        self._havoc_assigned(st, fr, contract)
        done = z3.Const(fresh_name("done"), ssort)
        rest = z3.Const(fresh_name("rest"), ssort)
        if any(a.arg == "done" for a in inv.args.args):
            # only invariants that talk about the processed prefix need the decomposition fact
            self.assume(whole == z3.Concat(done, rest))
        extra = {"done": VList(elem, seq=done), "rest": VList(elem, seq=rest)}
        self._assume_spec(contract, inv, fr, extra)
        if not self.decide(z3.Length(rest) > 0, assume_both=bool(contract.opts.get("loop_split_unchecked"))):
            self.assume(rest == empty)
            self.exec_block(st.orelse, fr)
            return
        h = z3.Const(fresh_name("h"), elem.sort())
        t = z3.Const(fresh_name("t"), ssort)
        self.assume(rest == z3.Concat(z3.Unit(h), t))
        hv = elem.wrap(h)
        self.on_element(it, hv)
        if enum_start is not None:
            # the unprocessed part is a suffix of the whole sequence: its first element has index len(whole)-len(rest)
            self.assume(z3.Length(rest) <= z3.Length(whole))
            self.assign_target(st.target, VTuple([VInt(enum_start + z3.Length(whole) - z3.Length(rest)), hv]), fr)
        else:
            self.assign_target(st.target, hv, fr)
        # invariants of loops NESTED in this body may name `rest<k>`: the part of this loop's sequence after the
        # current element (needed to state an inner invariant relative to the outer fold)
        fr.env[f"rest{k}"] = VList(elem, seq=t)
        try:
            self.exec_block(st.body, fr)
        except ContinueSig:
            pass
        except BreakSig:
            return
        extra = {"done": VList(elem, seq=z3.Concat(done, z3.Unit(h))), "rest": VList(elem, seq=t)}
        self._check_inv(contract, inv, fr, extra, "loop%d.preserve" % k, st.lineno)
        raise Infeasible()

    def _for_range(self, st, fr, rng):
        """`for i in range(lo, hi)` with symbolic bounds. The invariant inv<k> may name the loop variable: there it
        denotes the index of the NEXT iteration (lo at entry, max(lo, hi) at exit). Inside the body the variable is
        the current index; after the loop it holds the last index (or its old value if no iteration ran)."""
        if not isinstance(st.target, ast.Name):
            raise Unsupported(f"for-loop over symbolic range with a non-name target at line {st.lineno}")
        name = st.target.id
        k = self._loop_ordinal(st, fr)
        contract = fr.contract
        inv = contract.methods.get(f"inv{k}") if contract else None
        if inv is None:
            raise Unsupported(f"for loop #{k} at line {st.lineno} of {self.cur_func} has no invariant (inv{k})")
        lo, hi = rng.lo, rng.hi
        end = z3.If(hi > lo, hi, lo)
        prev = fr.lookup(name)
        self._check_inv(contract, inv, fr, {name: VInt(lo)}, "loop%d.init" % k, st.lineno)
        self._havoc_assigned(st, fr, contract)
        i = z3.Const(fresh_name(name), z3.IntSort())
        self.assume(z3.And(lo <= i, i <= end))
        self._assume_spec(contract, inv, fr, {name: VInt(i)})
        if not self.decide(i < hi):
            self.assume(i == end)
            last = z3.Const(fresh_name(name + ".last"), z3.IntSort())
            self.assume(z3.Implies(hi > lo, last == hi - 1))
            if isinstance(prev, VInt):
                self.assume(z3.Implies(hi <= lo, last == prev.t))
            fr.assign(name, VInt(last))
            self.exec_block(st.orelse, fr)
            return
        fr.assign(name, VInt(i))
        try:
            self.exec_block(st.body, fr)
        except ContinueSig:
            pass
        except BreakSig:
            return
        self._check_inv(contract, inv, fr, {name: VInt(i + 1)}, "loop%d.preserve" % k, st.lineno)
        raise Infeasible()

    def on_element(self, lst, hv):
        """Hook: facts about an element drawn from a list (e.g. children are non-null)."""
        if isinstance(hv, VNode):
            self.assume(hv.t != hv.ty.null)
            origin = getattr(lst, "origin", None)
            if origin is not None:
                self.node_child_fact(origin, hv)

    def concrete_items(self, it):
        if getattr(it, "is_set", False):
            raise Unsupported("iteration over a set (order and multiplicity are not modelled; use added(s) in invariants)")
        if isinstance(it, VList) and it.items is not None:
            return list(it.items)
        if isinstance(it, VTuple):
            return list(it.items)
        if isinstance(it, VConst):
            if isinstance(it.py, (tuple, list)):
                return [lift(x) for x in it.py]
            if isinstance(it.py, (set, frozenset)):
                return [lift(x) for x in sorted(it.py, key=repr)]
            if isinstance(it.py, dict):
                return [lift(x) for x in it.py]
            if isinstance(it.py, range):
                return [lift(x) for x in it.py]
        if isinstance(it, VRec) and it.ty.as_dict:
            return [lift(k) for k in it.fields]
        return None

    def _assigned_names(self, node):
        names, attrs, mutated = set(), set(), set()
        for n in ast.walk(node):
            if isinstance(n, (ast.Assign, ast.AugAssign, ast.AnnAssign, ast.For, ast.NamedExpr, ast.With)):
                tgts = []
                if isinstance(n, ast.Assign):
                    tgts = n.targets
                elif isinstance(n, (ast.AugAssign, ast.AnnAssign, ast.NamedExpr, ast.For)):
                    tgts = [n.target]
                for t in tgts:
                    for s in ast.walk(t):
                        if isinstance(s, ast.Name) and isinstance(s.ctx, ast.Store):
                            names.add(s.id)
                        elif isinstance(s, (ast.Attribute, ast.Subscript)) and isinstance(s.ctx, ast.Store):
                            mutated.add(ast.unparse(s.value))
                            if isinstance(s, ast.Attribute):
                                attrs.add(ast.unparse(s))
                if isinstance(n, ast.AugAssign) and isinstance(n.target, ast.Name):
                    mutated.add(n.target.id)
            elif isinstance(n, ast.Call) and isinstance(n.func, ast.Attribute):
                if n.func.attr in ("append", "extend", "add", "update", "clear", "setdefault", "pop", "insert",
                                   "remove", "discard", "sort", "reverse"):
                    mutated.add(ast.unparse(n.func.value))
        return names, attrs, mutated

    def _havoc_assigned(self, st, fr, contract):
        """Forget everything the loop may change: assigned names, mutated containers, callee frames."""
        names, attrs, mutated = self._assigned_names(st)
        from . import effects
        effects.havoc_declared_at_loop(self)  # ghost output streams the function under proof may write to
        body_only = ast.Module(body=st.body, type_ignores=[])
        # arguments of calls whose contracts declare a frame, or that are inlined (conservative: havoc mutable args)
        for n in ast.walk(st):
            if isinstance(n, ast.Call) and isinstance(n.func, ast.Name):
                # a closure defined in this function that rebinds variables of the enclosing scope (`nonlocal`): every
                # such variable may change in the loop (whether the closure is inlined or applied by contract)
                fvv = fr.lookup(n.func.id)
                if isinstance(fvv, VFunc) and getattr(fvv.info, "kind", None) == "nested":
                    for sub in ast.walk(fvv.info.node):
                        if isinstance(sub, ast.Nonlocal):
                            names.update(sub.names)
            if isinstance(n, ast.Call):
                if isinstance(n.func, ast.Name) and n.func.id in _PURE_BUILTINS and fr.lookup(n.func.id) is None \
                        and fr.module is not None and n.func.id not in getattr(fr.module, "functions", {}):
                    continue  # len(xs), hash(s), range(n)...: builtins that never mutate their arguments
                if isinstance(n.func, ast.Attribute) and isinstance(n.func.value, ast.Constant) and isinstance(n.func.value.value, str):
                    continue  # "sep".join(xs) and other methods of a str literal
                roots = self._callee_frame_roots(n, fr, contract)
                if roots is not None:
                    mutated.update(roots)  # a plain function applied by CONTRACT changes only what its `modifies` lists
                    continue
                for a in list(n.args) + [k.value for k in n.keywords]:
                    if isinstance(a, (ast.Name, ast.Attribute)):
                        mutated.add(ast.unparse(a))
                if isinstance(n.func, ast.Attribute) and isinstance(n.func.value, ast.Name) and n.func.value.id == "self":
                    mutated.add("self")
        ltypes = (contract.types if contract else {})
        for name in sorted(names):
            cur = fr.lookup(name)
            ty = ltypes.get(name)
            if ty is None and cur is not None and not isinstance(cur, (VNone, VConst)):
                ty = _type_of_value(cur)
            if ty is None:
                if cur is None:
                    # first assigned inside the loop and only used there: leave undefined
                    continue
                raise Unsupported(f"loop at line {st.lineno} assigns {name!r}: give its type in the contract's types")
            nv = ty.fresh(name)
            self.on_fresh(nv)
            fr.assign(name, nv)
        for path in sorted(mutated | attrs):
            self.merge_depth += 1  # looking the value up is not an execution step: no safety obligations / assumptions
            try:
                cur = self.eval(ast.parse(path, mode="eval").body, fr)
            except (Unsupported, RaiseSig, Infeasible):
                continue
            finally:
                self.merge_depth -= 1
            if isinstance(cur, VList) and cur.elem is None and isinstance(ltypes.get(path), SeqOf):
                cur.elem = ltypes[path].elem  # `xs = []` before the loop: element type from the contract's types
            self.havoc_value(cur, path)

    def _callee_frame_roots(self, call, fr, contract):
        """For `f(a1, .., an)` where the bare name f denotes a module-level function that has a contract and is not
        inlined by the function under proof: the argument expressions bound to the roots of the callee's `modifies`
        paths (exactly what apply_contract havocs at the call site). None if the callee cannot be resolved that way."""
        if not isinstance(call.func, ast.Name) or fr.lookup(call.func.id) is not None or fr.module is None:
            return None
        fi = getattr(fr.module, "functions", {}).get(call.func.id)
        if fi is None:
            imp = getattr(fr.module, "imports", {}).get(call.func.id)
            if imp is None or imp[1] is None:
                return None
            try:
                fv = self.resolve_import(fr.module, imp[0], imp[1], 0)
            except Unsupported:
                return None
            fi = fv.info if isinstance(fv, VFunc) else None
        if fi is None or getattr(fi, "kind", None) not in (None, "function"):
            return None
        c = api.REGISTRY.get(fi.key)
        if c is None or (contract is not None and (fi.name in contract.inline or fi.key in contract.inline)):
            return None
        a = fi.node.args
        if a.vararg or a.kwarg or any(isinstance(x, ast.Starred) for x in call.args) or any(k.arg is None for k in call.keywords):
            return None
        pnames = [x.arg for x in a.posonlyargs + a.args]
        bound = dict(zip(pnames, call.args))
        bound.update({k.arg: k.value for k in call.keywords})
        roots = set()
        for path in c.modifies:
            arg = bound.get(path.split(".")[0])
            if arg is None:
                return None
            if isinstance(arg, (ast.Name, ast.Attribute)):
                roots.add(ast.unparse(arg))
        return roots

    def havoc_value(self, v, base="havoc", depth=0):
        """In-place havoc of a mutable value's content (records recursively, lists, dicts)."""
        if isinstance(v, VList):
            if v.elem is None:
                raise Unsupported(f"havoc of list {base} with unknown element type (annotate it in the contract types)")
            v.items = None
            v.seq = z3.Const(fresh_name(base), z3.SeqSort(v.elem.sort()))
        elif isinstance(v, VDict):
            v.t = z3.Const(fresh_name(base), v.t.sort())
        elif type(v).__name__ == "VMap":
            nv = v.ty.fresh(base)
            v.present, v.vals = nv.present, nv.vals
        elif isinstance(v, VRec) and depth < 6:
            for k, x in list(v.fields.items()):
                if isinstance(x, (VList, VDict, VRec)):
                    self.havoc_value(x, f"{base}.{k}", depth + 1)
                elif isinstance(x, (VInt, VBool, VStr, VOpt, VNode, VAny, VOpaque, VTuple)):
                    v.fields[k] = _type_of_value(x).fresh(f"{base}.{k}")
                elif isinstance(x, (VNone, VConst)):
                    # a field currently holding None / a constant: its new value has the declared type, if any
                    fty = v.ty.fields.get(k) if isinstance(v.ty, Rec) else None
                    if fty is not None:
                        v.fields[k] = fty.fresh(f"{base}.{k}")
                    elif isinstance(x, VNone) or not isinstance(x.py, (type(None),)) and not callable(getattr(x, "py", None)):
                        if isinstance(x, VNone) or isinstance(x.py, (int, str, bool, float, tuple, frozenset, set, list, dict)):
                            raise Unsupported(f"havoc of field {base}.{k} holding {x}: declare its type in the contract's record type")
        elif isinstance(v, VRec):
            raise Unsupported(f"havoc of record {base} nested deeper than 6 levels")

    # ------------------------------------------------------------------ spec evaluation helpers
    def _bind_spec_args(self, contract, fn_node, fr, extra):
        args = {}
        for a in fn_node.args.args:
            n = a.arg
            if n in extra:
                args[n] = extra[n]
            elif n == "self" and fr.lookup("self") is None:
                args[n] = VNone()
            elif n in ("stdout", "stderr") and fr.lookup(n) is None:
                from . import effects  # ghost output streams (pyvc/effects.py)
                args[n] = effects.current(self, n)
            else:
                v = fr.lookup(n)
                if v is None:
                    raise Unsupported(f"spec {fn_node.name} of {contract.target}: no value for parameter {n!r}")
                args[n] = v
        return args

    def _eval_spec_method(self, contract, fn_node, fr, extra):
        args = self._bind_spec_args(contract, fn_node, fr, extra)
        mod = self.spec_module(contract.module)
        sf = Frame(mod, FuncInfo(f"{contract.module}::{contract.cls.__name__}.{fn_node.name}", mod, fn_node), is_spec=True)
        sf.env.update(args)
        self.spec_depth += 1
        try:
            self.exec_block(fn_node.body, sf)
        except ReturnSig as r:
            return r.value
        finally:
            self.spec_depth -= 1
        raise Unsupported(f"spec {fn_node.name} of {contract.target} returns nothing")

    def _check_inv(self, contract, inv, fr, extra, label, lineno):
        old = fr.lookup("__old__")
        ex = dict(extra)
        if old is not None:
            ex.setdefault("old", old)
        v = self._eval_spec_method(contract, inv, fr, ex)
        # `lemmas_inv<k>`: instances of separately proved lemmas, available ONLY to this invariant's init/preserve checks
        lem = contract.methods.get("lemmas_" + inv.name)
        pushed = 0
        if lem is not None:
            self.lemma_using = getattr(self, "lemma_using", 0) + 1
            self.merge_depth += 1
            saved_ctx = len(self.run.ctx)
            try:
                term = truthy(self._eval_spec_method(contract, lem, fr, ex))
            finally:
                self.lemma_using -= 1
                self.merge_depth -= 1
                del self.run.ctx[saved_ctx:]
            self.run.ctx.append(term)
            pushed = 1
        try:
            self.oblige("loop." + label.split(".")[1], truthy(v), lineno, carries=False, label=label)
        finally:
            if pushed:
                self.run.ctx.pop()

    def _assume_spec(self, contract, fn_node, fr, extra):
        old = fr.lookup("__old__")
        ex = dict(extra)
        if old is not None:
            ex.setdefault("old", old)
        v = self._eval_spec_method(contract, fn_node, fr, ex)
        self.assume(truthy(v))

    def spec_module(self, modname) -> ModuleInfo:
        if modname not in self.spec_modules:
            import sys
            mod = sys.modules[modname]
            import inspect
            src = inspect.getsource(mod)
            mi = self.repo._index(f"<spec>/{modname}", src)
            mi.py = mod
            mi.is_spec = True
            self.spec_modules[modname] = mi
        return self.spec_modules[modname]

    # ------------------------------------------------------------------ assignment targets
    def assign_target(self, tgt, v, fr):
        if isinstance(tgt, ast.Name):
            fr.assign(tgt.id, v)
        elif isinstance(tgt, (ast.Tuple, ast.List)):
            items = self.unpack(v, len(tgt.elts), tgt.lineno)
            for t, x in zip(tgt.elts, items):
                self.assign_target(t, x, fr)
        elif isinstance(tgt, ast.Attribute):
            obj = self.eval(tgt.value, fr)
            if isinstance(obj, VRec):
                fty = obj.ty.fields.get(tgt.attr) if isinstance(obj.ty, Rec) else None
                if isinstance(fty, SeqOf) and fty.elem in (Str, Int) and isinstance(v, VConst) \
                        and isinstance(v.py, (set, frozenset)) and all(type(x) is (str if fty.elem is Str else int) for x in v.py):
                    # a constant set stored in a field the contract DECLARES as a sequence: the membership-only view
                    # (same modelling as `x: set[str] = set()`); len / iteration order stay unsupported on it
                    v = VList(fty.elem, items=[lift(x) for x in sorted(v.py)])
                    v.is_set = True
                obj.fields[tgt.attr] = v
            else:
                raise Unsupported(f"attribute assignment on {obj}")
        elif isinstance(tgt, ast.Subscript):
            obj = self.eval(tgt.value, fr)
            key = self.eval(tgt.slice, fr)
            self.setitem(obj, key, v, tgt.lineno)
        elif isinstance(tgt, ast.Starred):
            raise Unsupported("starred assignment")
        else:
            raise Unsupported(f"assignment target {type(tgt).__name__}")

    def unpack(self, v, n, lineno):
        if isinstance(v, VTuple) and len(v.items) == n:
            return v.items
        if isinstance(v, VList) and v.items is not None and len(v.items) == n:
            return v.items
        if isinstance(v, VList) and v.seq is not None:
            self.safety(z3.Length(v.seq) == n, "unpack length", lineno)
            return [v.elem.wrap(v.seq[i]) for i in range(n)]
        raise Unsupported(f"cannot unpack {v} into {n} targets")


# builtins that never mutate their arguments (used by the loop-havoc over-approximation)
_PURE_BUILTINS = frozenset(("len", "hash", "range", "str", "int", "bool", "isinstance", "abs", "repr", "type", "id",
                            "hasattr", "enumerate", "zip", "min", "max", "sorted", "tuple", "list", "any", "all", "sum",
                            "set", "frozenset", "reversed"))


def _as_load(t):
    import copy
    t2 = copy.deepcopy(t)
    for n in ast.walk(t2):
        if hasattr(n, "ctx"):
            n.ctx = ast.Load()
    return t2


def _handler_names(h):
    if h.type is None:
        return None
    ts = h.type.elts if isinstance(h.type, ast.Tuple) else [h.type]
    return [t.id if isinstance(t, ast.Name) else t.attr for t in ts]


def _cls_name(v: VClass):
    i = v.info
    if isinstance(i, ClassInfo):
        return i.name
    if isinstance(i, str):
        return i.split(".")[-1]
    return getattr(i, "__name__", str(i))


def _type_of_value(v: V):
    if isinstance(v, VOpt):
        return Opt(v.ty.inner)
    if isinstance(v, VTuple):
        return TupleOf(*[_type_of_value(x) for x in v.items])
    if isinstance(v, VList):
        if v.elem is None:
            raise Unsupported("list of unknown element type")
        return SeqOf(v.elem)
    return v.ty
