"""pyvc.ex_call -- name resolution, calls (contracts, inlining, spec functions), builtins, methods."""
from __future__ import annotations

import ast
import builtins as _bi

import z3

from . import api
from .ops import NOCONST, concrete_of, eq, int_to_str, merge, simp, truthy
from .resolve import ClassInfo, FuncInfo, ModuleInfo
from .run import Infeasible, RaiseSig, ReturnSig
from .ex_expr import RECFUNS
from .ty import (Any, Bool, Bytes, Dict, Int, NodeTy, NoneT, Opaque, Opt, Rec, SeqOf, Str, TupleOf, Ty, Unsupported, V,
                 VAny, VBool, VClass, VConst, VDict, VExc, VFunc, VInt, VList, VNode, VNone, VOpaque, VOpt, VRec, VStr,
                 VTuple, ValSort, EmptyDict, coerce, fresh_name, lift, to_val)

MAX_CALL_DEPTH = 12
EXTERNALS: dict = {}  # dotted name -> handler(ex, args, kwargs, lineno) -> V
PY_TYPES = {int: Int, bool: Bool, str: Str, bytes: Bytes}


_KNOWN_REFUTED = None


def _refuted_known(obligation_base):
    """True when known_findings.json lists this post-condition as an (open) refuted obligation: its callers must
    rely on the finding-adjusted clause only -- assuming the refuted one as well would make their proofs vacuous."""
    global _KNOWN_REFUTED
    if _KNOWN_REFUTED is None:
        import json
        import os
        path = os.path.join(os.path.dirname(os.path.dirname(os.path.abspath(__file__))), "known_findings.json")
        try:
            data = json.load(open(path))
            _KNOWN_REFUTED = [e["obligation"] for e in data.get("findings", []) if e.get("status", "open") == "open"]
        except (OSError, ValueError):
            _KNOWN_REFUTED = []
    return any(obligation_base == pat or obligation_base.endswith(pat) for pat in _KNOWN_REFUTED)


def external(name):
    def deco(fn):
        EXTERNALS[name] = fn
        return fn
    return deco


def _ty_of_annotation(a):
    if isinstance(a, Ty):
        return a
    if a in PY_TYPES:
        return PY_TYPES[a]
    raise Unsupported(f"spec function annotation {a!r} is not a pyvc type")


class CallMixin:
    # ------------------------------------------------------------------ names
    def module_name(self, mod: ModuleInfo, name):
        if name in mod.functions:
            return VFunc(mod.functions[name])
        if name in mod.classes:
            return VClass(mod.classes[name])
        if getattr(mod, "is_spec", False) and name in mod.py.__dict__ and name not in mod.functions:
            return self.lift_py_object(mod.py.__dict__[name], name)
        if name in mod.consts:
            return self.module_const(mod, name)
        if name in mod.imports:
            m, attr = mod.imports[name]
            if getattr(mod, "is_spec", False):
                pyv = mod.py.__dict__.get(name, NOCONST)
                if pyv is not NOCONST:
                    return self.lift_py_object(pyv, name)
            if attr is None:
                return VConst(("ext", m))
            return self.resolve_import(mod, m, attr, 0)
        if getattr(mod, "is_spec", False) and name in mod.py.__dict__:
            return self.lift_py_object(mod.py.__dict__[name], name)
        if name in ("True", "False", "None"):
            return lift({"True": True, "False": False, "None": None}[name])
        if name == "__file__" and not getattr(mod, "is_spec", False):
            return lift(mod.relpath)  # the module's path relative to the repository root
        if name == "__name__" and getattr(mod, "relpath", "").endswith(".py"):
            return lift(mod.relpath[:-3].replace("/", "."))
        if hasattr(_bi, name):
            obj = getattr(_bi, name)
            if isinstance(obj, type) and issubclass(obj, BaseException):
                return VClass(name)
            return VConst(("builtin", name))
        return None

    def lift_py_object(self, pyv, name):
        """An object living in a sidecar (spec) module namespace."""
        import types as _t
        if isinstance(pyv, Ty):
            return VConst(pyv)
        if hasattr(pyv, "__pyvc_uf__"):
            return VConst(("uf", pyv.__pyvc_uf__))
        if isinstance(pyv, _t.FunctionType):
            modname = pyv.__module__
            if modname == "pyvc.api":
                return VConst(("specprim", pyv.__name__))
            import sys
            if modname in sys.modules and (modname.startswith("contracts") or modname in api.SPEC_MODULES
                                           or modname.startswith("pyvc.speclib")):
                mi = self.spec_module(modname)
                if pyv.__name__ in mi.functions:
                    return VFunc(mi.functions[pyv.__name__])
            raise Unsupported(f"spec refers to python function {modname}.{pyv.__name__} that is not a spec function")
        if isinstance(pyv, _t.ModuleType):
            return VConst(("ext", pyv.__name__))
        if isinstance(pyv, (int, str, bool, type(None), tuple, list, frozenset, set, dict, bytes)):
            return lift(pyv)
        if isinstance(pyv, type):
            return VConst(("pyclass", pyv))
        raise Unsupported(f"spec refers to unsupported python object {name}={pyv!r}")

    def module_const(self, mod: ModuleInfo, name):
        key = (mod.relpath, name)
        if key not in self.module_const_cache:
            from .ex import Frame
            fr = Frame(mod, None)
            saved = self.merge_depth
            try:
                v = self.eval(mod.consts[name], fr)
            finally:
                self.merge_depth = saved
            self.module_const_cache[key] = v
        v = self.module_const_cache[key]
        r = v.clone({})
        if isinstance(r, (VRec, VList, VDict)) and not getattr(mod, "is_spec", False):
            # a module-level MUTABLE container: the object itself is shared process-wide state; the mark lets a contract
            # that declares `fresh_result=True` reject handing it out un-copied (copy()/dict()/list() build unmarked objects)
            try:
                r.module_global = f"{mod.relpath}::{name}"
            except Exception:  # noqa
                pass
        return r

    def resolve_import(self, mod: ModuleInfo, m, attr, level):
        if level and getattr(mod, "relpath", "").endswith(".py") and not getattr(mod, "is_spec", False):
            # function-level `from .sibling import name`: resolve relative to the package of the importing module
            pkg = mod.relpath[:-3].split("/")[:-1]
            base = pkg[:len(pkg) - (level - 1)]
            m = ".".join(base + ([m] if m else []))
        target = self.repo.module_by_dotted(m) if m else None
        if target is not None:
            v = self.module_name(target, attr)
            if v is not None:
                return v
            sub = self.repo.module_by_dotted(f"{m}.{attr}")
            if sub is not None:
                return VConst(("repomod", sub.relpath))
            raise Unsupported(f"cannot resolve {attr} in {m}")
        return VConst(("ext", f"{m}.{attr}"))

    def external_attr(self, dotted, attr):
        full = f"{dotted}.{attr}"
        if dotted == "ast":
            import ast as _ast
            obj = getattr(_ast, attr, None)
            if isinstance(obj, type):
                return VConst(("astclass", attr))
        if full in ("re.IGNORECASE", "re.MULTILINE", "re.DOTALL", "re.VERBOSE", "re.I", "re.M", "re.S"):
            import re
            return VConst(getattr(re, attr))
        if dotted in ("sys",) and attr in ("maxsize",):
            import sys
            return lift(getattr(sys, attr))
        return VConst(("ext", full))

    def class_of_rec(self, obj: VRec):
        ck = getattr(obj.ty, "cls", None)
        if ck:
            return self.repo.lookup_class(ck)
        return None

    def class_attr(self, ci: ClassInfo, attr, obj):
        m = ci.find_method(attr, self.repo)
        if m is not None:
            if m.kind == "property":
                if obj is None:
                    raise Unsupported("property access on class")
                return self.call_function(VFunc(m, bound_self=obj), [], {}, None, 0)
            if m.kind == "staticmethod":
                return VFunc(m)
            if m.kind == "classmethod":
                return VFunc(m, bound_self=VClass(ci))
            return VFunc(m, bound_self=obj) if obj is not None else VFunc(m)
        c = ci.find_const(attr, self.repo)
        if c is not None:
            owner, expr = c
            from .ex import Frame
            fr = Frame(owner.module, None)
            r = self.eval(expr, fr)
            if self.is_enum_class(owner) and isinstance(r, VStr) and not r.is_bytes and obj is None:
                from .ty import EnumOf, VEnum
                return VEnum(r.t, EnumOf(owner.key))  # `Cls.MEMBER`: the member, represented by its value
            return r
        return None

    # ------------------------------------------------------------------ string-valued Enum classes
    def is_enum_class(self, ci):
        return isinstance(ci, ClassInfo) and any((b.id if isinstance(b, ast.Name) else getattr(b, "attr", "")) in
                                                 ("Enum", "StrEnum") for b in ci.bases)

    def enum_members(self, ci):
        """[(member name, value string)] of an Enum class whose members are string constants."""
        out = []
        for n, expr in ci.consts.items():
            if isinstance(expr, ast.Constant) and isinstance(expr.value, str) and not n.startswith("_"):
                out.append((n, expr.value))
        return out

    def enum_member_name(self, v):
        """`member.name`: by the members of the class; uninterpreted for a string that is no member's value."""
        ci = self.repo.lookup_class(v.enum_ty.cls)
        self.ufs_used.add(f"enum: name of a non-member value of {ci.name} is uninterpreted")
        t = z3.Function(f"enum.name_of.{ci.name}", z3.StringSort(), z3.StringSort())(v.t)
        for n, val in reversed(self.enum_members(ci)):
            t = z3.If(v.t == z3.StringVal(val), z3.StringVal(n), t)
        return VStr(t)

    # ------------------------------------------------------------------ calls
    def ex_Call(self, e, fr):
        # any()/all()/sum()/len() over a generator: handled structurally
        if isinstance(e.func, ast.Name) and e.func.id in ("any", "all", "sum", "len", "list", "tuple", "sorted", "set", "next") \
                and fr.lookup(e.func.id) is None and len(e.args) >= 1 and isinstance(e.args[0], (ast.GeneratorExp, ast.ListComp)):
            r = self.call_on_comprehension(e.func.id, e.args[0], e, fr)
            if r is not None:
                return r
        fv = self.eval(e.func, fr)
        args = []
        for a in e.args:
            if isinstance(a, ast.Starred):
                items = self.concrete_items(self.eval(a.value, fr))
                if items is None:
                    raise Unsupported("star-args of unknown length")
                args.extend(items)
            else:
                args.append(self.eval(a, fr))
        kwargs = {}
        for k in e.keywords:
            if k.arg is None:
                d = self.eval(k.value, fr)
                if isinstance(d, VRec) and d.ty.as_dict:
                    kwargs.update(d.fields)
                    continue
                raise Unsupported("**kwargs of unknown keys")
            kwargs[k.arg] = self.eval(k.value, fr)
        return self.call_function(fv, args, kwargs, fr, e.lineno, e)

    def call_on_comprehension(self, fname, comp, e, fr):
        from .ex import Frame
        if len(comp.generators) != 1:
            return None
        g = comp.generators[0]
        it = self.eval(g.iter, fr)
        if self.concrete_items(it) is not None or not isinstance(it, VList):
            return None
        if fname in ("any", "all") or (fname == "sum" and isinstance(comp.elt, ast.Constant) and comp.elt.value == 1):
            elem = it.elem
            x = z3.Const(f"cx!{''.join(c if c.isalnum() else '_' for c in elem.name)}", elem.sort())
            sub = Frame(fr.module, fr.func, parent=fr, is_spec=fr.is_spec)
            sub.contract = fr.contract
            xv = elem.wrap(x)
            self.merge_depth += 1
            saved = len(self.run.ctx)
            try:
                self.on_element(it, xv)
                self.assign_target(g.target, xv, sub)
                ok = z3.BoolVal(True)
                for cnd in g.ifs:
                    c = truthy(self.eval(cnd, sub))
                    ok = z3.And(ok, c)
                    self.run.ctx.append(c)
                if fname == "sum":
                    pred = ok
                else:
                    p = truthy(self.eval(comp.elt, sub))
                    pred = z3.And(ok, p) if fname == "any" else z3.Implies(ok, p)
            finally:
                del self.run.ctx[saved:]
                self.merge_depth -= 1
            t = self.seq_pred_recfun({"any": "any", "all": "all", "sum": "count"}[fname], it, x, pred)
            return VInt(t) if fname == "sum" else VBool(t)
        return None

    def call_function(self, fv, args, kwargs, fr, lineno, e=None):
        from .ex_expr import VMethod
        if isinstance(fv, VMethod):
            return self.call_method(fv.recv, fv.name, args, kwargs, lineno, fv.src, fr)
        if isinstance(fv, VFunc):
            return self.call_vfunc(fv, args, kwargs, fr, lineno)
        if isinstance(fv, VClass):
            return self.construct(fv, args, kwargs, fr, lineno)
        if isinstance(fv, VConst) and isinstance(fv.py, tuple) and len(fv.py) == 2:
            kind, name = fv.py
            if kind == "builtin":
                return self.call_builtin(name, args, kwargs, lineno)
            if kind == "ext":
                h = EXTERNALS.get(name)
                if h is None:
                    raise Unsupported(f"external call {name} has no contract (contracts/external.py)")
                self.external_used.add(name)
                return h(self, args, kwargs, lineno)
            if kind == "uf":
                return self.call_uf(name, args)
            if kind == "specprim":
                return self.call_specprim(name, args, kwargs, fr, lineno)
            if kind == "astclass":
                raise Unsupported(f"construction of ast.{name}")
            if kind == "pyclass":
                raise Unsupported(f"call of python class {name} in spec")
        if isinstance(fv, VOpaque):
            # a function-valued parameter of a declared opaque type: its behaviour is the trusted model `<Type>.__call__`
            h = EXTERNALS.get(f"{fv.ty.name}.__call__")
            if h is not None:
                self.external_used.add(f"{fv.ty.name}.__call__")
                return h(self, [fv] + list(args), kwargs, lineno)
        raise Unsupported(f"call of {fv} at line {lineno}")

    def call_uf(self, name, args):
        argtys, retty, conc = api.UFS[name]
        cs = [concrete_of(a) for a in args]
        if conc is not None and all(c is not NOCONST for c in cs):
            return self._lift_typed(conc(*cs), retty)
        self.ufs_used.add(name)
        f = z3.Function(f"uf.{name}", *[t.sort() for t in argtys], retty.sort())
        return retty.wrap(f(*[t.pack(a) for t, a in zip(argtys, args)]))

    def _lift_typed(self, py, ty):
        v = lift(py)
        if isinstance(ty, SeqOf) and isinstance(v, (VList, VTuple)):
            return VList(ty.elem, items=list(v.items))
        if isinstance(ty, Opt) and not isinstance(v, VNone):
            return v
        return v

    def call_specprim(self, name, args, kwargs, fr, lineno):
        if name == "implies":
            return VBool(z3.Implies(truthy(args[0]), truthy(args[1])))
        if name == "iff":
            return VBool(truthy(args[0]) == truthy(args[1]))
        if name == "old_of":
            return args[0]
        if name == "added":
            v = args[0]
            if not getattr(v, "is_set", False):
                raise Unsupported("added(): argument is not a modelled set")
            return VList(v.elem, seq=v.term())
        if name == "as_items":
            return args[0]
        if name == "dict_put":
            return VDict(z3.Store(Dict.pack(args[0]), coerce(args[1], Str).t, to_val(args[2])))
        if name == "same_members":
            from .ty import VSet

            def seq_view(v):
                if isinstance(v, VSet):
                    return v.lst
                if isinstance(v, VConst) and isinstance(v.py, (set, frozenset, list, tuple)) and all(type(x) is int for x in v.py):
                    return VList(Int, items=[lift(x) for x in sorted(set(v.py))])
                if isinstance(v, VAny):
                    return coerce(v, SeqOf(Int))
                if isinstance(v, VTuple) and all(isinstance(x, VInt) for x in v.items):
                    return VList(Int, items=list(v.items))
                if isinstance(v, VList) and (v.elem is Int or (v.items is not None and all(isinstance(x, VInt) for x in v.items))):
                    return v
                raise Unsupported(f"same_members of {v}")
            a, b = seq_view(args[0]), seq_view(args[1])
            ca, cb = concrete_of(a), concrete_of(b)
            if ca is not NOCONST and cb is not NOCONST:
                return VBool(set(ca) == set(cb))
            return VBool(SeqOf(Int).pack(a) == SeqOf(Int).pack(b))
        if name in ("as_str_list", "as_list"):
            v = args[0]
            if isinstance(v, VAny):
                return coerce(v, SeqOf(Str if name == "as_str_list" else Any))
            return v
        if name == "is_int_list":
            v = args[0]
            if isinstance(v, VAny):
                return VBool(ValSort.is_LI(v.t))
            if isinstance(v, VList):
                return VBool(v.elem is Int or (v.items is not None and all(isinstance(x, (VInt, VBool)) for x in v.items)))
            return VBool(False)
        if name in ("is_str_list", "is_any_list"):
            v = args[0]
            if isinstance(v, VAny):
                return VBool(ValSort.is_LS(v.t) if name == "is_str_list" else ValSort.is_LV(v.t))
            if isinstance(v, VList):
                return VBool(v.elem is Str if name == "is_str_list" else True)
            return VBool(False)
        if name == "ih":
            return self.induction_hypothesis(args[0], args[1:], fr, lineno)
        if name == "use":
            return self.use_lemma(args[0], args[1:], fr, lineno)
        if name == "parses_as_int":
            v = coerce(args[0], Str)
            ok = z3.Function("str.is_int_literal", z3.StringSort(), z3.BoolSort())  # same symbols as bi_int
            return VBool(z3.Or(z3.StrToInt(v.t) >= 0, ok(v.t)))
        if name == "sorted_member_fact":
            # instance of the trusted contract of sorted(): x in sorted(xs, key=k)  <=>  x in xs
            kw = {"__member__": args[1]}
            if kwargs.get("key") is not None:
                kw["key"] = kwargs["key"]
            self.bi_sorted([args[0]], kw, lineno)
            return VBool(True)
        if name == "is_sorted":
            lst = args[0]
            if not (isinstance(lst, VList) and lst.elem is not None):
                raise Unsupported("is_sorted(): needs a typed list")
            ordered, _ = self.ordered_pred(lst.elem, kwargs.get("key", args[1] if len(args) > 1 else None), lineno)
            return VBool(ordered(lst.term()))
        if name == "reveal":
            fv = args[0]
            app = self.call_opaque(fv.info, list(args[1:]), {})
            self.merge_depth += 1
            saved = len(self.run.ctx)
            try:
                params = self.bind_params(fv.info, None, list(args[1:]), {})
                from .ex import Frame
                sub = Frame(fv.info.module, fv.info, is_spec=True)
                sub.env.update(params)
                body = self.merge_block(fv.info.node.body, sub)
            finally:
                self.merge_depth -= 1
                del self.run.ctx[saved:]
            self.assume(eq(app, body))
            return VBool(True)
        if name == "mk":
            ty = args[0].py
            return VRec(ty, {k: kwargs[k] for k in ty.fields if k in kwargs} | {k: v for k, v in kwargs.items()})
        if name == "call":
            key = concrete_of(args[0])
            finfo = self.repo.lookup(key)
            bound = None
            rest = list(args[1:])
            if finfo.cls is not None and finfo.kind in ("method", "property"):
                bound = rest.pop(0)
            if isinstance(key, str) and "~" in key:
                # call("target~tag", ...): apply that VIEW (an additional contract verified against the same body)
                vc = api.REGISTRY.get(key)
                if vc is None:
                    raise Unsupported(f"call() of {key}: no such view contract")
                return self.apply_contract(vc, finfo, bound, rest, kwargs, lineno)
            return self.call_vfunc(VFunc(finfo, bound_self=bound), rest, kwargs, fr, lineno, force_contract=True)
        raise Unsupported(f"spec primitive {name}")

    def induction_hypothesis(self, fv, args, fr, lineno):
        """Assume the lemma at smaller arguments; oblige that the measure (first argument) decreases."""
        if not isinstance(fv, VFunc):
            raise Unsupported("ih(): first argument must be the lemma function")
        top = fr
        while top.parent is not None:
            top = top.parent
        cur_params = getattr(self, "lemma_params", None)
        if cur_params is None or getattr(self, "lemma_using", 0) > 0:
            return VBool(True)  # lemma being *used*, not proved: the hypothesis is not needed
        first_name = list(cur_params)[0]
        big, small = cur_params[first_name], args[0]
        if isinstance(big, VList):
            dec = z3.And(small.length() < big.length(), small.length() >= 0)
        else:
            dec = z3.And(coerce(small, Int).t < coerce(big, Int).t, coerce(small, Int).t >= 0)
        self.oblige("lemma", dec, lineno, label="ih.decreases")
        self.lemma_using = getattr(self, "lemma_using", 0) + 1
        try:
            claim = self.inline_call(fv.info, None, None, list(args), {}, None, lineno)
        finally:
            self.lemma_using -= 1
        self.assume(truthy(claim))
        return VBool(True)

    def use_lemma(self, fv, args, fr, lineno):
        """use(lemma_fn, *args): assume the claim of a separately proved @lemma at these arguments. To rule out
        circular reasoning, a lemma may only use lemmas of the same file that are defined strictly before it."""
        if not isinstance(fv, VFunc):
            raise Unsupported("use(): first argument must be a lemma function")
        modname = fv.info.module.py.__name__
        lem = [l for l in api.LEMMAS if l.fn.__name__ == fv.info.name and l.module == modname]
        if not lem:
            raise Unsupported(f"use(): {fv.info.name} is not a registered @lemma")
        if getattr(self, "lemma_using", 0) > 0:
            return VBool(True)  # only the claim of the enclosing lemma is being evaluated
        cur = getattr(self, "cur_lemma", None)
        if cur is not None:
            if cur.module != modname or lem[-1].node.lineno >= cur.node.lineno:
                raise Unsupported(f"use({fv.info.name}) inside a lemma: only lemmas defined earlier in the same file")
        self.lemma_using = getattr(self, "lemma_using", 0) + 1
        try:
            claim = self.inline_call(fv.info, None, None, list(args), {}, None, lineno)
        finally:
            self.lemma_using -= 1
        self.assume(truthy(claim))
        return VBool(True)

    def bind_params(self, finfo: FuncInfo, bound_self, args, kwargs, lineno=0):
        a = finfo.node.args
        names = [x.arg for x in a.posonlyargs + a.args]
        params = {}
        pos = list(args)
        if bound_self is not None and finfo.kind in ("method", "classmethod", "property") and names:
            params[names[0]] = bound_self
            names = names[1:]
        elif finfo.kind == "classmethod" and names:
            params[names[0]] = VClass(finfo.cls)
            names = names[1:]
        if len(pos) > len(names) and a.vararg is None:
            raise Unsupported(f"too many positional arguments for {finfo.key}")
        for n, v in zip(names, pos):
            params[n] = v
        if a.vararg is not None:
            params[a.vararg.arg] = VTuple(pos[len(names):])
        kw = dict(kwargs)
        defaults = dict(zip(names[len(names) - len(a.defaults):], a.defaults)) if a.defaults else {}
        for n in names[len(pos):]:
            if n in kw:
                params[n] = kw.pop(n)
            elif n in defaults:
                params[n] = self._eval_default(finfo, defaults[n])
            else:
                raise Unsupported(f"missing argument {n} for {finfo.key}")
        for x, d in zip(a.kwonlyargs, a.kw_defaults):
            if x.arg in kw:
                params[x.arg] = kw.pop(x.arg)
            elif d is not None:
                params[x.arg] = self._eval_default(finfo, d)
            else:
                raise Unsupported(f"missing keyword argument {x.arg} for {finfo.key}")
        if kw:
            if a.kwarg is not None:
                params[a.kwarg.arg] = VRec(Rec("kwargs", as_dict=True), kw)
            else:
                raise Unsupported(f"unexpected keyword arguments {list(kw)} for {finfo.key}")
        elif a.kwarg is not None:
            params[a.kwarg.arg] = VRec(Rec("kwargs", as_dict=True), {})
        return params

    def _eval_default(self, finfo, expr):
        from .ex import Frame
        return self.eval(expr, Frame(finfo.module, None))

    def call_vfunc(self, fv: VFunc, args, kwargs, fr, lineno, force_contract=False):
        finfo = fv.info
        is_spec = getattr(finfo.module, "is_spec", False)
        if is_spec and finfo.kind not in ("lambda", "nested"):
            return self.call_spec_function(finfo, args, kwargs, lineno)
        c = api.REGISTRY.get(finfo.key)
        tc = getattr(self, "top_contract", None)
        if tc is not None and tc.opts.get("callee_view") and not force_contract:
            # the unit under proof belongs to a family of VIEWS (`target~tag` contracts, each verified against the same
            # body as its own unit): callees that have a view of that family are applied through it
            c = api.REGISTRY.get(f"{finfo.key}~{tc.opts['callee_view']}", c)
        caller_contract = getattr(fr, "contract", None) if fr is not None else None
        inline_ok = finfo.kind in ("lambda", "nested")
        if caller_contract is not None and not force_contract:
            if finfo.name in caller_contract.inline or finfo.key in caller_contract.inline:
                inline_ok = True
        if fr is not None and getattr(fr, "inline_all", None) and finfo.name in fr.inline_all:
            inline_ok = True
        if force_contract:
            if c is None:
                raise Unsupported(f"call() of {finfo.key}: no contract")
            return self.apply_contract(c, finfo, fv.bound_self, args, kwargs, lineno)
        if finfo.kind == "nested" and c is not None and not (
                caller_contract is not None and (finfo.name in caller_contract.inline or finfo.key in caller_contract.inline)):
            # a nested closure that has its own contract (recursive visitors): applied, not inlined
            return self.apply_contract(c, finfo, None, args, kwargs, lineno, closure=fv.closure)
        if not inline_ok:
            if c is not None:
                return self.apply_contract(c, finfo, fv.bound_self, args, kwargs, lineno)
            # A callee of the real code that nobody put under contract (typically a helper a change has just introduced):
            # its body is executed in place, which is exact, instead of giving the unit up as UNDECIDED. Not for recursion
            # (directly or through other auto-inlined callees); loops inside still need invariants and stay Unsupported.
            stack = getattr(self, "_auto_inline_stack", None)
            if stack is None:
                stack = self._auto_inline_stack = []
            if is_spec or finfo.key in stack or len(stack) >= 3 or finfo.kind in ("property",):
                raise Unsupported(f"callee {finfo.key} has no contract (called at line {lineno} of {self.cur_func})")
            stack.append(finfo.key)
            try:
                self.ufs_used.add(f"uncontracted callee {finfo.key} executed in place (its body is part of this unit's proof)")
                return self.inline_call(finfo, fv.bound_self, fv.closure, args, kwargs, fr, lineno)
            finally:
                stack.pop()
        return self.inline_call(finfo, fv.bound_self, fv.closure, args, kwargs, fr, lineno)

    def inline_call(self, finfo, bound_self, closure, args, kwargs, fr, lineno):
        from .ex import Frame
        if self.call_depth > MAX_CALL_DEPTH:
            raise Unsupported(f"inlining depth exceeded at {finfo.key}")
        params = self.bind_params(finfo, bound_self, args, kwargs, lineno)
        sub = Frame(finfo.module, finfo, parent=closure, is_spec=getattr(finfo.module, "is_spec", False))
        sub.contract = api.REGISTRY.get(finfo.key) or (fr.contract if finfo.kind in ("lambda", "nested") and fr is not None else None)
        if fr is not None and getattr(fr, "inline_all", None):
            sub.inline_all = fr.inline_all
        elif fr is not None and fr.contract is not None:
            sub.inline_all = set(fr.contract.inline)
        sub.env.update(params)
        if finfo.kind not in ("lambda", "nested"):
            self.inlined.add(finfo.key)
        self.call_depth += 1
        try:
            self.exec_block(finfo.node.body, sub)
        except ReturnSig as r:
            return r.value
        finally:
            self.call_depth -= 1
        return VNone()

    # ---- spec functions
    def _spec_callgraph(self, mi: ModuleInfo):
        if not hasattr(mi, "_rec"):
            g = {}
            for n, fi in mi.functions.items():
                ih_args = {id(c.args[0]) for c in ast.walk(fi.node) if isinstance(c, ast.Call)
                           and isinstance(c.func, ast.Name) and c.func.id == "ih" and c.args}
                g[n] = {x.id for x in ast.walk(fi.node) if isinstance(x, ast.Name) and x.id in mi.functions
                        and id(x) not in ih_args}
            rec = set()
            for n in g:
                seen, todo = set(), list(g[n])
                while todo:
                    y = todo.pop()
                    if y in seen:
                        continue
                    seen.add(y)
                    todo.extend(g.get(y, ()))
                if n in seen:
                    rec.add(n)
            mi._rec = rec
        return mi._rec

    def call_opaque(self, finfo, args, kwargs):
        mi = finfo.module
        pyfn = mi.py.__dict__[finfo.name]
        ann = dict(getattr(pyfn, "__annotations__", {}))
        names = [a.arg for a in finfo.node.args.args]
        try:
            ptys = [_ty_of_annotation(ann[n]) for n in names]
            rty = _ty_of_annotation(ann["return"])
        except KeyError as ex:
            raise Unsupported(f"opaque spec function {finfo.name} needs pyvc type annotations ({ex})")
        f = z3.Function(f"opq.{finfo.name}", *[t.sort() for t in ptys], rty.sort())
        params = self.bind_params(finfo, None, args, kwargs)
        self.ufs_used.add(f"opaque spec function {finfo.name} (definition revealed only where stated)")
        return rty.wrap(f(*[t.pack(params[n]) for n, t in zip(names, ptys)]))

    def call_spec_function(self, finfo, args, kwargs, lineno):
        mi = finfo.module
        if getattr(mi.py.__dict__.get(finfo.name), "__pyvc_opaque__", False):
            return self.call_opaque(finfo, args, kwargs)
        if finfo.name in self._spec_callgraph(mi):
            return self.call_recfun(finfo, args, kwargs)
        if self.merge_depth > 0:
            params = self.bind_params(finfo, None, args, kwargs)
            from .ex import Frame
            sub = Frame(mi, finfo, is_spec=True)
            sub.env.update(params)
            return self.merge_block(finfo.node.body, sub)
        return self.inline_call(finfo, None, None, args, kwargs, None, lineno)

    def call_recfun(self, finfo, args, kwargs):
        from .ex import Frame
        mi = finfo.module
        key = ("spec", mi.relpath, finfo.name)
        pyfn = mi.py.__dict__[finfo.name]
        ann = dict(getattr(pyfn, "__annotations__", {}))
        names = [a.arg for a in finfo.node.args.args]
        try:
            ptys = [_ty_of_annotation(ann[n]) for n in names]
            rty = _ty_of_annotation(ann["return"])
        except KeyError as ex:
            raise Unsupported(f"recursive spec function {finfo.name} needs pyvc type annotations ({ex})")
        if key not in RECFUNS:
            f = z3.RecFunction(f"spec.{finfo.name}", *[t.sort() for t in ptys], rty.sort())
            RECFUNS[key] = f
            consts = [z3.Const(f"{finfo.name}.{n}", t.sort()) for n, t in zip(names, ptys)]
            sub = Frame(mi, finfo, is_spec=True)
            for n, t, c in zip(names, ptys, consts):
                sub.env[n] = t.wrap(c)
            self.merge_depth += 1
            saved_pc = self.run.ctx
            self.run.ctx = []
            try:
                body = self.merge_block(finfo.node.body, sub)
            finally:
                self.merge_depth -= 1
                self.run.ctx = saved_pc
            z3.RecAddDefinition(f, consts, rty.pack(body))
        f = RECFUNS[key]
        params = self.bind_params(finfo, None, args, kwargs)
        return rty.wrap(f(*[t.pack(params[n]) for n, t in zip(names, ptys)]))

    def merge_block(self, stmts, fr):
        """Evaluate a pure function body to ONE value (if/return chains become ite)."""
        for i, st in enumerate(stmts):
            if isinstance(st, ast.Return):
                return self.eval(st.value, fr)
            if isinstance(st, ast.If):
                c = simp(truthy(self.eval(st.test, fr)))
                rest = stmts[i + 1:]
                if z3.is_true(c):
                    return self.merge_block(list(st.body) + rest, fr)
                if z3.is_false(c):
                    return self.merge_block(list(st.orelse) + rest, fr)
                saved = len(self.run.ctx)
                fa, fb = self._fork_frame(fr), self._fork_frame(fr)
                try:
                    self.run.ctx.append(c)
                    a = self.merge_block(list(st.body) + rest, fa)
                    del self.run.ctx[saved:]
                    self.run.ctx.append(z3.Not(c))
                    b = self.merge_block(list(st.orelse) + rest, fb)
                finally:
                    del self.run.ctx[saved:]
                return merge(c, a, b)
            if isinstance(st, (ast.Assign, ast.AnnAssign, ast.Expr, ast.Pass)):
                self.exec_stmt(st, fr)
                continue
            raise Unsupported(f"statement {type(st).__name__} in a pure spec function")
        raise Unsupported("spec function falls off the end without return")

    def _fork_frame(self, fr):
        from .ex import Frame
        f = Frame(fr.module, fr.func, parent=fr.parent, is_spec=fr.is_spec)
        memo = {}
        f.env = {k: v.clone(memo) for k, v in fr.env.items()}
        f.contract = fr.contract
        return f

    # ---- contracts at call sites
    def spec_eval(self, c, name, values, finfo=None):
        from .ex import Frame
        fn = c.methods[name]
        mod = self.spec_module(c.module)
        sf = Frame(mod, FuncInfo(f"{c.module}::{c.cls.__name__}.{name}", mod, fn), is_spec=True)
        for a in fn.args.args:
            if a.arg not in values:
                if a.arg in ("stdout", "stderr"):
                    from . import effects  # ghost output streams (pyvc/effects.py)
                    sf.env[a.arg] = effects.current(self, a.arg)
                    continue
                raise Unsupported(f"{c.target}: spec {name} wants parameter {a.arg!r} which is not available")
            sf.env[a.arg] = values[a.arg]
        self.spec_depth += 1
        try:
            self.exec_block(fn.body, sf)
        except ReturnSig as r:
            return r.value
        finally:
            self.spec_depth -= 1
        raise Unsupported(f"{c.target}: spec {name} returns nothing")

    def apply_contract(self, c, finfo, bound_self, args, kwargs, lineno, closure=None):
        params = self.bind_params(finfo, bound_self, args, kwargs, lineno)
        params = {k: self.adapt_arg(v, c.types.get(k)) for k, v in params.items()}
        free = list(c.opts.get("free", ())) if finfo.kind == "nested" else []
        for n in free:
            v = closure.lookup(n) if closure is not None else None
            if v is None:
                raise Unsupported(f"{c.target}: free variable {n!r} is not bound in the enclosing scope at this call")
            params[n] = self.adapt_arg(v, c.types.get(n))
        memo = {}
        old = VRec(Rec("old"), {k: v.clone(memo) for k, v in params.items()})
        from . import effects
        effects.add_old(self, old.fields)  # old.stdout / old.stderr
        vals = dict(params)
        vals["old"] = old
        short = c.target.split("::")[1]
        if c.assumed:
            self.assumed_used.add(c.target)
        # process-level effect ledger (file-system writes ...): a callee's DECLARED effects count as performed, on its
        # normal and on its exceptional exits alike; a caller that declares `effects=[...]` may only call callees that
        # declare theirs (otherwise the ledger would be incomplete)
        top = getattr(self, "top_contract", None)
        if self.spec_depth == 0 and self.merge_depth == 0:
            if c.opts.get("effects") is not None:
                for e_ in c.opts["effects"]:
                    self.run.effects.append((e_, lineno))
            elif top is not None and top.opts.get("effects") is not None:
                self.oblige("frame", z3.BoolVal(False), lineno, note=f"callee {short} declares no effects", label="frame.effects.callee")
        if self.merge_depth > 0 and self.spec_depth == 0 and c.modifies:
            # a state-modifying callee under a binder (comprehension body) would be evaluated against the initial
            # state for every element: not expressible -> the unit is undecided, never silently approximated
            raise Unsupported(f"call of {short} (modifies {c.modifies}) inside a comprehension over a symbolic sequence")
        if "requires" in c.methods:
            pre = truthy(self.spec_eval(c, "requires", vals))
            self.oblige("pre", pre, lineno, label=f"pre@{short}@L{lineno}")
            self.assume(pre)
        if c.raises:
            if "raises_when" in c.methods:
                rw = truthy(self.spec_eval(c, "raises_when", vals))
                if self.merge_depth > 0 and getattr(self, "binder_raises", None) is not None and not z3.is_false(simp(rw)) \
                        and len(c.raises) == 1 and not c.modifies:
                    # inside a comprehension body of the code under proof: lifted to any(...) by _comp_recfun
                    self.binder_raises.append((simp(rw), c.raises[0]))
                elif self.decide(rw):
                    for cls in c.raises[:-1]:  # several declared classes: any of them
                        b = z3.Const(fresh_name(f"raises.{cls}"), z3.BoolSort())
                        if self.decide(b):
                            self.raise_by_contract(c, cls, params, old, lineno)
                    self.raise_by_contract(c, c.raises[-1], params, old, lineno)
            else:
                for cls in c.raises:
                    b = z3.Const(fresh_name(f"raises.{cls}"), z3.BoolSort())
                    if self.decide(b):
                        self.raise_by_contract(c, cls, params, old, lineno)
        for path in c.modifies:
            if path in free and isinstance(params[path], (VInt, VBool, VStr, VOpt, VNone)):
                # a rebound (nonlocal) variable of the enclosing scope: forget its value there
                nv = c.types[path].fresh(path)
                self.on_fresh(nv)
                f = closure
                while f is not None and path not in f.env:
                    f = f.parent
                if f is None:
                    raise Unsupported(f"{c.target}: free variable {path!r} not found in the enclosing scope")
                f.env[path] = nv
                params[path] = nv
                continue
            self.havoc_path(params, path, c, lineno)
        if "value" in c.methods:
            # functional contract: the result IS the spec value (usable under binders, no fresh symbol)
            result = self.spec_eval(c, "value", vals)
        elif c.returns is None:
            result = VNone()
        else:
            if self.merge_depth > 0 and getattr(self, "lemma_using", 0) == 0 and self.spec_depth == 0:
                # under a comprehension binder a fresh result symbol would be ONE value shared by all elements
                raise Unsupported(f"call of {c.target} inside a comprehension/merged expression needs a functional "
                                  f"contract (`value`), its contract only has ensures clauses")
            result = c.returns.fresh("ret")
            self.on_fresh(result)
        vals = dict(params)
        vals["old"] = old
        vals["result"] = result
        for name in c.ensures_names():
            if _refuted_known(f"{c.target}/post.{name}"):
                continue  # a clause recorded as refuted (known finding) must never be assumed at call sites
            if any(a.arg == "effects" for a in c.methods[name].args.args):
                continue  # talks about the callee's own effect ledger: proved there, not assumed here
            self.assume(truthy(self.spec_eval(c, name, vals)))
        return result

    def raise_by_contract(self, c, cls, params, old, lineno):
        """Exceptional exit of a callee as its contract describes it: everything in `modifies` is forgotten (the
        exception may come after partial work), the `on_raise*` clauses (proved on every exceptional exit of the
        callee) are assumed, and the exception carries a value of type `exc=<Ty>` (e.g. the exit code)."""
        for path in c.modifies:
            self.havoc_path(params, path, c, lineno)
        payload = None
        ety = c.opts.get("exc")
        if ety is not None:
            payload = ety.fresh("exc")
        vals = dict(params)
        vals["old"] = old
        if payload is not None:
            vals["exc"] = payload
        vals["exc_class"] = lift(cls)
        for name in sorted(n for n in c.methods if n.startswith("on_raise")):
            if _refuted_known(f"{c.target}/post.{name}"):
                continue  # an exceptional-exit clause recorded as refuted (known finding) is never assumed by callers
            if any(a.arg == "effects" for a in c.methods[name].args.args):
                continue  # talks about the callee's own effect ledger: proved there, not assumed here
            self.assume(truthy(self.spec_eval(c, name, vals)))
        raise RaiseSig(VExc(cls, payload))

    def on_fresh(self, v):
        """Trusted facts about a freshly introduced symbolic value (type invariants of the abstract domain)."""
        from .ty import VNode, VRec, VTuple, VOpt
        if isinstance(v, VNode):
            h = getattr(v.ty, "on_fresh", None)
            if h is not None:
                h(self, v)
        elif isinstance(v, VRec):
            for x in v.fields.values():
                self.on_fresh(x)
        elif isinstance(v, VTuple):
            for x in v.items:
                self.on_fresh(x)
        elif isinstance(v, VOpt):
            self.on_fresh(v.val)

    def adapt_arg(self, v, ty):
        """Give an argument the representation the callee's contract declares (e.g. literal dict -> Dict)."""
        if ty is None:
            return v
        if ty is Dict and isinstance(v, VRec) and v.ty.as_dict:
            t = EmptyDict
            for k, x in v.fields.items():
                t = z3.Store(t, z3.StringVal(k), to_val(x))
            return VDict(t)
        if ty is Dict and isinstance(v, VAny):
            return self.dict_view(v)
        from .ty import Assoc as _Assoc
        if isinstance(ty, _Assoc) and isinstance(v, VRec) and v.ty.as_dict and not getattr(v.ty, "optkeys", False):
            # a dict display with constant keys: its items in insertion order
            r = VList(ty.elem, items=[VTuple([lift(k), self.adapt_arg(x, ty.valty)]) for k, x in v.fields.items()])
            r.assoc = True
            return r
        if isinstance(ty, _Assoc) and isinstance(v, (VAny, VDict)):
            # a dict handed to a callee that iterates over .items(): the insertion-ordered item list is an
            # uninterpreted view of the dict (nothing is assumed about which pairs it contains)
            nm = "uf.dict_items" if ty.valty is Any else f"uf.dict_items[{ty.valty.name}]"
            self.ufs_used.add("dict_items (items view of a dict: uninterpreted)")
            return ty.wrap(z3.Function(nm, Dict.sort(), ty.sort())(Dict.pack(v)))
        if ty is Any and not isinstance(v, VAny):
            return VAny(to_val(v))
        if isinstance(ty, SeqOf) and isinstance(v, VList) and v.elem is None and v.items is not None:
            v.elem = ty.elem
        if isinstance(ty, SeqOf) and isinstance(v, VList) and v.elem is not None and ty.elem is not None \
                and v.elem is not ty.elem and isinstance(ty.elem, Rec) and isinstance(v.elem, Rec):
            from .ty import _tykey
            if _tykey(ty.elem) == _tykey(v.elem) and any(type(ty.elem.fields[k]) is not type(v.elem.fields.get(k))
                                                         for k in ty.elem.fields):
                # same SMT sort, other VIEW of a field (an enum-valued field seen as its value string): the callee
                # sees the elements through its own descriptor (a copy: only for lists the callee does not mutate)
                return VList(ty.elem, seq=v.term())
        if isinstance(ty, Rec) and isinstance(v, VRec) and isinstance(v.ty, Rec) and v.ty is not ty and not ty.as_dict \
                and set(v.fields) == set(ty.fields) == set(v.ty.fields):
            from .ty import _tykey
            if _tykey(ty) == _tykey(v.ty) and any(type(ty.fields[k]) is not type(v.ty.fields[k]) for k in ty.fields):
                return ty.wrap(v.ty.pack(v))  # same sort, other view of a field (enum member vs. its value string)
        if ty in (Int, Str, Bool) and isinstance(v, VAny):
            return coerce(v, ty)
        if isinstance(ty, SeqOf) and isinstance(v, VAny):
            return coerce(v, ty)
        return v

    def havoc_path(self, params, path, c, lineno=0):
        if path in ("stdout", "stderr") and path not in params:
            from . import effects
            effects.havoc(self, path, lineno, who=f"callee {c.target.split('::')[1]}")
            return
        parts = path.split(".")
        if parts[0] not in params:
            raise Unsupported(f"{c.target}: modifies path {path!r} does not start at a parameter")
        if len(parts) == 1:
            self.havoc_value(params[parts[0]], parts[0])
            return
        obj = params[parts[0]]
        if isinstance(obj, VOpt):
            obj = obj.val  # an optional object passed where the callee dereferences it (guarded at the use site)
        for p in parts[1:-1]:
            obj = obj.fields[p] if isinstance(obj, VRec) else None
            if isinstance(obj, VOpt):
                obj = obj.val
            if obj is None:
                raise Unsupported(f"{c.target}: cannot resolve modifies path {path!r}")
        last = parts[-1]
        if not isinstance(obj, VRec):
            raise Unsupported(f"{c.target}: cannot resolve modifies path {path!r}")
        cur = obj.fields.get(last)
        # the callee contract's DECLARED type of the modified field (e.g. a list that is still `[]` / a `{}` placeholder
        # in the caller gets the declared element type / representation)
        decl = c.types.get(parts[0])
        for p in parts[1:]:
            decl = decl.fields.get(p) if isinstance(decl, Rec) else None
        if isinstance(cur, VList) and cur.elem is None and isinstance(decl, SeqOf):
            cur.elem = decl.elem
        if isinstance(decl, Opaque) and not isinstance(cur, VOpaque):
            obj.fields[last] = decl.fresh(path)
            return
        if isinstance(cur, (VList, VDict, VRec)):
            self.havoc_value(cur, path)
        else:
            fty = obj.ty.fields.get(last) if isinstance(obj.ty, Rec) else None
            if fty is None and cur is not None and not isinstance(cur, VNone):
                from .ex import _type_of_value
                fty = _type_of_value(cur)
            if fty is None:
                raise Unsupported(f"{c.target}: unknown type of modified field {path!r}")
            obj.fields[last] = fty.fresh(path)

    # ---- construction
    def resolve_vclass(self, cv: VClass):
        from .ty import ClassKey
        if isinstance(cv.info, ClassKey):
            cv.info = self.repo.lookup_class(cv.info.key)
        return cv

    def construct(self, cv: VClass, args, kwargs, fr, lineno):
        ci = self.resolve_vclass(cv).info
        if isinstance(ci, str):
            msg = args[0] if args else None
            return VExc(ci, msg)
        if not isinstance(ci, ClassInfo):
            raise Unsupported(f"construction of {ci}")
        # exception classes defined in the repository
        for b in ci.bases:
            bn = b.id if isinstance(b, ast.Name) else getattr(b, "attr", "")
            if bn in ("Exception", "ValueError", "RuntimeError") or bn.endswith("Error"):
                from .ex import EXC_PARENTS
                EXC_PARENTS.setdefault(ci.name, bn)
                return VExc(ci.name, args[0] if args else None)
        if self.is_enum_class(ci) and len(args) == 1 and not kwargs and self.enum_members(ci):
            # Cls(value): the member with that value, ValueError if there is none
            from .ty import EnumOf, VEnum
            a0 = args[0]
            if isinstance(a0, VOpt) or not isinstance(a0, (VStr, VAny)):
                raise Unsupported(f"{ci.name}({a0}): only string values are modelled")
            val = coerce(a0, Str)
            ok = [val.t == z3.StringVal(x) for _, x in self.enum_members(ci)]
            if isinstance(a0, VAny):
                ok = [z3.And(ValSort.is_S(a0.t), c) for c in ok]
            self.maybe_raise(z3.Or(ok) if len(ok) > 1 else ok[0], "ValueError", lineno)
            return VEnum(val.t, EnumOf(ci.key))
        c = api.REGISTRY.get(ci.key + ".__init__") or api.REGISTRY.get(ci.key)
        ty = Rec(ci.name, cls=ci.key)
        if c is not None and isinstance(c.types.get("self"), Rec) and not ci.is_dataclass:
            # a contract on __init__ declares the object's fields: the new object gets that record type, so the
            # fields listed in the contract's `modifies` can be created (havoc + ensures) at the construction site
            ty = c.types["self"].with_cls(ci.key)
        if ci.is_dataclass:
            fields = {}
            all_fields = self._dataclass_fields(ci)
            names = [f[0] for f in all_fields]
            for n, v in zip(names, args):
                fields[n] = v
            for n, v in kwargs.items():
                if n not in names:
                    raise Unsupported(f"{ci.name}: unknown field {n}")
                fields[n] = v
            for n, ann, default in all_fields:
                if n not in fields:
                    if default is None:
                        raise Unsupported(f"{ci.name}: missing field {n}")
                    fields[n] = self._dataclass_default(ci, default)
            rty = Rec(ci.name, cls=ci.key)
            rty.fields = {k: v.ty for k, v in fields.items()}  # (not as keywords: a field may be called `name`)
            obj = VRec(rty, fields)
            pi = ci.find_method("__post_init__", self.repo)
            if pi is not None:
                self.call_vfunc(VFunc(pi, bound_self=obj), [], {}, fr, lineno)
            return obj
        init = ci.find_method("__init__", self.repo)
        obj = VRec(ty, {})
        if init is not None and api.REGISTRY.get(init.key) is None and not args and not kwargs \
                and all(isinstance(st, ast.Pass) or (isinstance(st, ast.Expr) and isinstance(st.value, ast.Constant))
                        for st in init.node.body):
            return obj  # a constructor whose body is empty (`pass` / docstring): no effect, no contract needed
        if init is not None:
            self.call_vfunc(VFunc(init, bound_self=obj), args, kwargs, fr, lineno)
        return obj

    def _dataclass_fields(self, ci):
        """Fields of a dataclass including those inherited from dataclass bases (base fields first, as CPython
        orders them; a field redeclared in a subclass keeps its original position)."""
        out = {}
        for c in reversed(ci.mro(self.repo)):
            if c.is_dataclass:
                for f in c.fields:
                    out[f[0]] = f
        return list(out.values())

    def _dataclass_default(self, ci, default):
        from .ex import Frame
        fr = Frame(ci.module, None)
        if isinstance(default, ast.Call) and isinstance(default.func, ast.Name) and default.func.id == "field":
            for k in default.keywords:
                if k.arg == "default_factory":
                    f = self.eval(k.value, fr)
                    if isinstance(f, VConst) and f.py == ("builtin", "list"):
                        return VList(None, items=[])
                    if isinstance(f, VConst) and f.py == ("builtin", "dict"):
                        return VRec(Rec("dict", as_dict=True), {})
                    return self.call_function(f, [], {}, fr, 0)
                if k.arg == "default":
                    return self.eval(k.value, fr)
            raise Unsupported("dataclass field() without default")
        return self.eval(default, fr)

    def with_external(self, st, fr):
        """`with EXPR as NAME:` where EXPR yields an opaque resource whose type is declared a non-suppressing context
        manager (`<Opaque type>.context_manager = True`, e.g. an open file): bind, run the body; __exit__ has no
        modelled effect and does not swallow exceptions."""
        for item in st.items:
            v = self.eval(item.context_expr, fr)
            if not (isinstance(v, VOpaque) and getattr(v.ty, "context_manager", False)):
                raise Unsupported(f"with-statement at line {st.lineno}: {v} is not a declared context manager")
            if item.optional_vars is not None:
                self.assign_target(item.optional_vars, v, fr)
        self.exec_block(st.body, fr)

    def elem_type_from_annotation(self, ann, fr):
        # list[str] / list[int] ; anything else: look in the contract's types under the variable name
        if isinstance(ann, ast.Subscript) and isinstance(ann.value, ast.Name) and ann.value.id in ("list", "List"):
            s = ann.slice
            if isinstance(s, ast.Name):
                return {"str": Str, "int": Int, "bool": Bool}.get(s.id) or self._named_type(s.id, fr)
        return None

    def _named_type(self, name, fr):
        c = getattr(fr, "contract", None)
        if c is not None:
            t = c.opts.get("named_types", {}).get(name)
            if t is not None:
                return t
        return None

    # ------------------------------------------------------------------ builtins
    def call_builtin(self, name, args, kwargs, lineno):
        m = getattr(self, "bi_" + name, None)
        if m is None:
            raise Unsupported(f"builtin {name}()")
        return m(args, kwargs, lineno)

    def bi_len(self, args, kwargs, lineno):
        v = args[0]
        if isinstance(v, VOpt):
            self.safety(z3.Not(v.isnone), "len(None)", lineno)
            v = v.val
        if isinstance(v, VStr):
            return VInt(z3.Length(v.t))
        if getattr(v, "is_set", False):
            raise Unsupported("len() of a set (cardinality is not modelled)")
        if isinstance(v, VList):
            return VInt(v.length())
        if isinstance(v, VTuple):
            return VInt(len(v.items))
        if isinstance(v, VConst) and hasattr(v.py, "__len__"):
            return VInt(len(v.py))
        if isinstance(v, VRec) and v.ty.as_dict:
            return VInt(len(v.fields))
        if isinstance(v, VAny):
            t = v.t
            return VInt(z3.If(ValSort.is_S(t), z3.Length(ValSort.sv(t)),
                              z3.If(ValSort.is_LS(t), z3.Length(ValSort.lsv(t)),
                                    z3.If(ValSort.is_LV(t), z3.Length(ValSort.lvv(t)), z3.Length(ValSort.liv(t))))))
        raise Unsupported(f"len of {v}")

    def bi_isinstance(self, args, kwargs, lineno):
        v, cls = args
        classes = cls.items if isinstance(cls, VTuple) else [cls]
        res = [self._isinstance1(v, c) for c in classes]
        return VBool(z3.Or(res) if len(res) > 1 else res[0])

    def _isinstance1(self, v, c):
        if isinstance(v, VOpt):
            return z3.And(z3.Not(v.isnone), self._isinstance1(v.val, c))
        if isinstance(c, VConst) and isinstance(c.py, tuple) and c.py[0] == "builtin":
            tn = c.py[1]
            if isinstance(v, VAny):
                t = v.t
                return {"int": z3.Or(ValSort.is_I(t), ValSort.is_B(t)), "bool": ValSort.is_B(t), "str": ValSort.is_S(t),
                        "dict": ValSort.is_D(t), "list": z3.Or(ValSort.is_LS(t), ValSort.is_LI(t), ValSort.is_LV(t)),
                        "float": z3.BoolVal(False)}.get(tn, None) if tn in ("int", "bool", "str", "dict", "list", "float") \
                    else self._unsupported(f"isinstance(Any, {tn})")
            table = {"int": (VInt, VBool), "bool": (VBool,), "str": (VStr,), "list": (VList,), "tuple": (VTuple,),
                     "dict": (VDict,), "float": (), "bytes": (), "set": (), "frozenset": ()}
            if tn not in table:
                raise Unsupported(f"isinstance(..., {tn})")
            if tn == "float" and isinstance(v, VConst) and isinstance(v.py, float):
                return z3.BoolVal(True)
            if tn == "dict" and isinstance(v, VRec) and v.ty.as_dict:
                return z3.BoolVal(True)
            if tn == "str" and isinstance(v, VStr) and v.is_bytes:
                return z3.BoolVal(False)
            if tn == "bytes" and isinstance(v, VStr) and v.is_bytes:
                return z3.BoolVal(True)
            return z3.BoolVal(isinstance(v, table[tn]))
        if isinstance(c, VConst) and isinstance(c.py, tuple) and c.py[0] == "astclass":
            if isinstance(v, VNode):
                return v.ty.isinstance_term(self, v, c.py[1])
            return z3.BoolVal(False)
        if isinstance(c, VClass):
            if isinstance(v, VRec):
                ci = self.class_of_rec(v)
                if ci is not None and isinstance(c.info, ClassInfo):
                    return z3.BoolVal(any(k.key == c.info.key for k in ci.mro(self.repo)))
                if ci is None and v.ty.as_dict and isinstance(c.info, ClassInfo) \
                        and not any(ast.unparse(b).split("[")[0].split(".")[-1] in ("dict", "Dict", "OrderedDict", "TypedDict", "Mapping", "MutableMapping")
                                    for k in c.info.mro(self.repo) for b in k.bases):
                    return z3.BoolVal(False)  # a plain dict is never an instance of a repo class that is not a mapping
            if isinstance(v, VExc):
                from .ex import exc_is
                return z3.BoolVal(exc_is(v.cls, c.info if isinstance(c.info, str) else c.info.name))
            if isinstance(v, (VInt, VBool, VStr, VNone, VList, VTuple)):
                return z3.BoolVal(False)
        raise Unsupported(f"isinstance({v}, {c})")

    def _unsupported(self, msg):
        raise Unsupported(msg)

    def bi_str(self, args, kwargs, lineno):
        if not args:
            return VStr("")
        return self.str_of(args[0])

    def bi_repr(self, args, kwargs, lineno):
        return VStr(self.repr_of(args[0]))

    def bi_bool(self, args, kwargs, lineno):
        return VBool(truthy(args[0])) if args else VBool(False)

    def bi_int(self, args, kwargs, lineno):
        v = args[0]
        if isinstance(v, (VInt, VBool)):
            return coerce(v, Int)
        c = [concrete_of(a) for a in args]
        if all(x is not NOCONST for x in c):
            try:
                return lift(int(*c))
            except ValueError:
                raise RaiseSig(VExc("ValueError"))
        if isinstance(v, VStr) and len(args) == 1:
            # int(s): defined for optional sign + digits (we model the unsigned-decimal case exactly)
            self.ufs_used.add("int(str)")
            ok = z3.Function("str.is_int_literal", z3.StringSort(), z3.BoolSort())
            val = z3.Function("str.int_value", z3.StringSort(), z3.IntSort())
            isnat = z3.StrToInt(v.t) >= 0
            self.maybe_raise(z3.Or(isnat, ok(v.t)), "ValueError", lineno)
            return VInt(z3.If(isnat, z3.StrToInt(v.t), val(v.t)))
        if isinstance(v, VStr) and len(args) == 2 and isinstance(args[1], (VInt, VBool)):
            # int(s, base): which texts are valid literals of a base, and their values, are uninterpreted (the string
            # parsing is not modelled); an invalid literal raises ValueError -- the exceptional edge IS followed
            self.ufs_used.add("int(str, base)")
            base = coerce(args[1], Int).t
            ok = z3.Function("str.is_int_literal_base", z3.StringSort(), z3.IntSort(), z3.BoolSort())
            val = z3.Function("str.int_value_base", z3.StringSort(), z3.IntSort(), z3.IntSort())
            self.maybe_raise(ok(v.t, base), "ValueError", lineno)
            return VInt(val(v.t, base))
        if isinstance(v, VAny):
            return coerce(v, Int)
        raise Unsupported(f"int({v})")

    def bi_bytes(self, args, kwargs, lineno):
        """bytes(s, "utf8"): same as s.encode() -- byte strings share the text's representation (flag is_bytes)."""
        if len(args) == 2 and isinstance(args[0], VStr) and not args[0].is_bytes \
                and str(concrete_of(args[1])).lower().replace("-", "") == "utf8":
            return VStr(args[0].t, is_bytes=True)
        raise Unsupported("bytes() other than bytes(<str>, 'utf8')")

    def bi_float(self, args, kwargs, lineno):
        """float(s): floats are not modelled -- the result is an opaque value (nothing but passing it on is supported);
        an invalid literal raises ValueError, and that exceptional edge is followed."""
        v = args[0] if args else None
        if isinstance(v, VStr) and len(args) == 1:
            from .ty import Opaque
            self.ufs_used.add("float(str): opaque result, ValueError on an invalid literal")
            ok = z3.Function("str.is_float_literal", z3.StringSort(), z3.BoolSort())
            self.maybe_raise(ok(v.t), "ValueError", lineno)
            fty = Opaque("float")
            return VOpaque(z3.Function("str.float_value", z3.StringSort(), fty.sort())(v.t), fty)
        raise Unsupported(f"float({v})")

    def bi_abs(self, args, kwargs, lineno):
        x = coerce(args[0], Int).t
        return VInt(z3.If(x >= 0, x, -x))

    def bi_max(self, args, kwargs, lineno):
        return self._minmax(args, kwargs, lineno, True)

    def bi_min(self, args, kwargs, lineno):
        return self._minmax(args, kwargs, lineno, False)

    def _minmax(self, args, kwargs, lineno, is_max):
        if len(args) == 1:
            items = self.concrete_items(args[0])
            if items is None:
                raise Unsupported("max/min over symbolic sequence")
            if not items:
                if "default" in kwargs:
                    return kwargs["default"]
                raise RaiseSig(VExc("ValueError"))
        else:
            items = args
        if "key" in kwargs:
            raise Unsupported("max/min with key")
        cur = coerce(items[0], Int).t
        for x in items[1:]:
            y = coerce(x, Int).t
            cur = z3.If(y > cur, y, cur) if is_max else z3.If(y < cur, y, cur)
        return VInt(cur)

    def bi_sum(self, args, kwargs, lineno):
        items = self.concrete_items(args[0])
        if items is None:
            v = args[0]
            if isinstance(v, VList) and v.elem is Int and v.seq is not None:
                # sum of a symbolic sequence of ints: one shared recursive function sum(s) = s[0] + sum(s[1:])
                key = ("sumint",)
                if key not in RECFUNS:
                    isort = z3.SeqSort(z3.IntSort())
                    f = z3.RecFunction("sumint", isort, z3.IntSort())
                    sq = z3.Const("cs!sumint", isort)
                    z3.RecAddDefinition(f, [sq], z3.If(z3.Length(sq) == 0, z3.IntVal(0),
                                                       sq[0] + f(z3.SubSeq(sq, 1, z3.Length(sq) - 1))))
                    RECFUNS[key] = f
                start = coerce(args[1], Int).t if len(args) > 1 else z3.IntVal(0)
                return VInt(start + RECFUNS[key](v.seq))
            raise Unsupported("sum over symbolic sequence")
        tot = coerce(args[1], Int).t if len(args) > 1 else z3.IntVal(0)
        for x in items:
            tot = tot + coerce(x, Int).t
        return VInt(tot)

    def bi_any(self, args, kwargs, lineno):
        return self._anyall(args[0], True)

    def bi_all(self, args, kwargs, lineno):
        return self._anyall(args[0], False)

    def _anyall(self, it, is_any):
        items = self.concrete_items(it)
        if items is not None:
            ts = [truthy(x) for x in items]
            if not ts:
                return VBool(not is_any)
            return VBool(z3.Or(ts) if is_any else z3.And(ts))
        ci = getattr(it, "cond_items", None)
        if isinstance(it, VList) and ci is not None and it.seq is ci[0]:
            # comprehension over a known-length iterable with symbolic filters: any/all over the guarded items
            ts = [truthy(v) if c is None else (z3.And(c, truthy(v)) if is_any else z3.Implies(c, truthy(v))) for c, v in ci[1]]
            return VBool(z3.Or(ts) if is_any else z3.And(ts))
        if isinstance(it, VList) and it.elem is Bool:
            x = z3.Const("cx!Bool", z3.BoolSort())
            return VBool(self.seq_pred_recfun("any" if is_any else "all", it, x, x))
        raise Unsupported("any/all over symbolic sequence of non-bool")

    def bi_list(self, args, kwargs, lineno):
        if not args:
            return VList(None, items=[])
        v = args[0]
        items = self.concrete_items(v)
        if items is not None:
            return self._mk_list(list(items))
        if isinstance(v, VList):
            return VList(v.elem, seq=v.seq)
        raise Unsupported(f"list({v})")

    def bi_tuple(self, args, kwargs, lineno):
        if not args:
            return VTuple([])
        items = self.concrete_items(args[0])
        if items is not None:
            return VTuple(items)
        raise Unsupported("tuple() of symbolic sequence")

    def bi_dict(self, args, kwargs, lineno):
        if not args:
            return VRec(Rec("dict", as_dict=True), dict(kwargs))
        v = args[0]
        if isinstance(v, VDict):
            return VDict(v.t)
        if isinstance(v, VRec) and v.ty.as_dict:
            return VRec(v.ty, dict(v.fields))
        if isinstance(v, VAny):
            self.safety(ValSort.is_D(v.t), "type(dict) of dynamic value", lineno)  # dict(<mapping>): shallow copy
            return VDict(ValSort.dv(v.t))
        raise Unsupported(f"dict({v})")

    def bi_set(self, args, kwargs, lineno):
        if not args:
            return VConst(frozenset())
        c = concrete_of(args[0])
        if c is not NOCONST:
            return VConst(frozenset(c))
        v = args[0]
        if isinstance(v, VAny) and hasattr(self, "known") and self.known(ValSort.is_LS(v.t)) is True:
            from .ty import VSet
            return VSet(VList(Str, seq=ValSort.lsv(v.t)))  # set(<list of str>): membership only, like the int case
        if isinstance(v, VAny):
            # set(<dynamic value>): modelled for a list of ints only (any other shape: unsafe/undecided)
            self.safety(ValSort.is_LI(v.t), "type(list[int]) of dynamic value", lineno)
            v = coerce(v, SeqOf(Int))
        if isinstance(v, VList) and v.elem is Int:
            from .ty import VSet
            return VSet(VList(Int, seq=v.term()))
        if isinstance(v, VStr) and not v.is_bytes:
            # set(<str>): the set of its characters, seen through an uninterpreted character list (membership only)
            from .ty import VSet
            self.ufs_used.add("set(str): characters as an uninterpreted list")
            return VSet(VList(Str, seq=z3.Function("str.chars", z3.StringSort(), z3.SeqSort(z3.StringSort()))(v.t)))
        raise Unsupported("set() of symbolic value")

    bi_frozenset = bi_set

    def bi_range(self, args, kwargs, lineno):
        c = [concrete_of(a) for a in args]
        if all(x is not NOCONST for x in c):
            return VConst(range(*c))
        if len(args) in (1, 2) and not kwargs and all(isinstance(a, (VInt, VBool)) for a in args):
            # symbolic bounds, step 1: only usable as the iterable of a for loop with an invariant (Exec._for_range)
            from .ty import VRange
            lo = coerce(args[0], Int).t if len(args) == 2 else z3.IntVal(0)
            return VRange(lo, coerce(args[-1], Int).t)
        raise Unsupported("range() with symbolic bounds")

    def bi_enumerate(self, args, kwargs, lineno):
        items = self.concrete_items(args[0])
        if items is None:
            lst = args[0]
            startv = args[1] if len(args) > 1 else kwargs.get("start", lift(0))
            if isinstance(lst, VList) and lst.seq is not None and lst.elem is not None and isinstance(startv, (VInt, VBool)):
                # enumerate over a z3 sequence: the list of (start + j, xs[j]) as a memoised recursive function
                oty = TupleOf(Int, lst.elem)
                key = ("enumerate", lst.elem.name)
                if key not in RECFUNS:
                    isort, osort = z3.SeqSort(lst.elem.sort()), z3.SeqSort(oty.sort())
                    f = z3.RecFunction(fresh_name("enumerate"), isort, z3.IntSort(), osort)
                    s, k = z3.Const("en!s", isort), z3.Const("en!k", z3.IntSort())
                    pair = oty.sort().constructor(0)(k, s[0])
                    z3.RecAddDefinition(f, [s, k], z3.If(z3.Length(s) == 0, z3.Empty(osort), z3.Concat(
                        z3.Unit(pair), f(z3.SubSeq(s, 1, z3.Length(s) - 1), k + 1))))
                    RECFUNS[key] = f
                return VList(oty, seq=RECFUNS[key](lst.seq, coerce(startv, Int).t))
            raise Unsupported("enumerate over symbolic sequence")
        start = concrete_of(args[1]) if len(args) > 1 else concrete_of(kwargs.get("start", lift(0)))
        return VList(None, items=[VTuple([lift(i + start), x]) for i, x in enumerate(items)])

    def bi_zip(self, args, kwargs, lineno):
        lists = [self.concrete_items(a) for a in args]
        if any(x is None for x in lists):
            raise Unsupported("zip over symbolic sequence")
        return VList(None, items=[VTuple(list(t)) for t in zip(*lists)])

    def bi_sorted(self, args, kwargs, lineno):
        c = concrete_of(args[0])
        if c is not NOCONST and not kwargs:
            return lift(sorted(c))
        lst = args[0]
        if len(args) == 1 and isinstance(lst, VList) and lst.elem is not None and set(kwargs) <= {"key", "__member__"}:
            # TRUSTED external contract of sorted(xs, key=k): a sequence of the same length with the same members
            # that is ordered by k. The result is an uninterpreted function of xs (same text => same term).
            seq = lst.term()
            ordered, keyid = self.ordered_pred(lst.elem, kwargs.get("key"), lineno)
            fkey = ("sorted", lst.elem.name, keyid)
            if fkey not in RECFUNS:
                RECFUNS[fkey] = z3.Function(fresh_name("sorted"), seq.sort(), seq.sort())
            r = RECFUNS[fkey](seq)
            self.ufs_used.add("sorted(xs, key): trusted contract = same length, same members, ordered by key")
            # quantifier-free: the "same members" part of the contract is instantiated explicitly, per element, with
            # the spec primitive sorted_member_fact(xs, x, key=...) (quantified axioms make every back end give up)
            facts = [z3.Length(r) == z3.Length(seq), ordered(r)]
            mem = kwargs.get("__member__")
            if mem is not None:
                facts.append(z3.Contains(r, z3.Unit(lst.elem.pack(mem))) == z3.Contains(seq, z3.Unit(lst.elem.pack(mem))))
            for fact in facts:
                if self.merge_depth == 0:
                    # facts about a TOTAL trusted function hold whatever guards the current sub-expression is under
                    self.run.pc.append(simp(fact))
                else:
                    self.assume(fact)  # under a binder the argument may mention bound variables: local fact
            return VList(lst.elem, seq=r)
        raise Unsupported("sorted() of symbolic sequence (give the callee a contract)")

    def ordered_pred(self, elem, keyfn, lineno=0):
        """(RecFunction `s is ordered by key`, identity of the key) for sequences of `elem`; key: lambda without
        captured variables returning an int, or None for sequences of ints."""
        x = z3.Const(f"ox!{''.join(ch if ch.isalnum() else '_' for ch in elem.name)}", elem.sort())
        if keyfn is None or isinstance(keyfn, VNone):
            if elem is not Int:
                raise Unsupported("sorted()/is_sorted() without key on a sequence of non-ints")
            kt = x
        else:
            if not isinstance(keyfn, VFunc):
                raise Unsupported("sorted()/is_sorted(): key must be a lambda")
            self.merge_depth += 1
            saved = len(self.run.ctx)
            try:
                kv = self.call_function(keyfn, [elem.wrap(x)], {}, None, lineno)
            finally:
                del self.run.ctx[saved:]
                self.merge_depth -= 1
            if not isinstance(kv, (VInt, VBool)):
                raise Unsupported("sorted()/is_sorted(): only integer keys are modelled")
            kt = simp(coerce(kv, Int).t)
            from .ex_expr import _captured_subterms
            if list(_captured_subterms(kt, x)):
                raise Unsupported("sorted()/is_sorted(): key lambda captures variables")
        keyid = kt.sexpr()
        okey = ("ordered", elem.name, keyid)
        if okey not in RECFUNS:
            ssort = z3.SeqSort(elem.sort())
            f = z3.RecFunction(fresh_name("ordered"), ssort, z3.BoolSort())
            s = z3.Const("os!s", ssort)
            z3.RecAddDefinition(f, [s], z3.Or(z3.Length(s) <= 1, z3.And(
                z3.substitute(kt, (x, s[0])) <= z3.substitute(kt, (x, s[1])), f(z3.SubSeq(s, 1, z3.Length(s) - 1)))))
            RECFUNS[okey] = f
        return RECFUNS[okey], keyid

    def bi_print(self, args, kwargs, lineno):
        self.run.effects.append(("print", lineno))
        return VNone()

    def bi_getattr(self, args, kwargs, lineno):
        obj, name = args[0], concrete_of(args[1])
        if name is NOCONST:
            nm = args[1]
            if isinstance(nm, VOpt):
                self.safety(z3.Not(nm.isnone), "getattr(None name)", lineno)
                nm = nm.val
            if isinstance(obj, VRec) and isinstance(nm, VStr):
                for k, v in obj.fields.items():
                    if self.decide(nm.t == z3.StringVal(k)):
                        return v
                if len(args) == 3:
                    return args[2]
                raise RaiseSig(VExc("AttributeError"))
            raise Unsupported("getattr with symbolic name")
        if len(args) == 3:
            if isinstance(obj, VRec) and name not in obj.fields and self.class_of_rec(obj) is None:
                return args[2]
            try:
                return self.getattr(obj, name)
            except Unsupported:
                if isinstance(obj, VRec):
                    return args[2]
                raise
        return self.getattr(obj, name)

    def bi_hasattr(self, args, kwargs, lineno):
        obj, name = args[0], concrete_of(args[1])
        if isinstance(obj, VOpt) and name is not NOCONST and not hasattr(None, str(name)):
            # hasattr(None, name) is False for every attribute NoneType does not have
            inner = self.bi_hasattr([obj.val, args[1]], kwargs, lineno)
            return VBool(z3.And(z3.Not(obj.isnone), truthy(inner)))
        if isinstance(obj, VRec) and name is not NOCONST:
            if name in obj.fields:
                return VBool(True)
            ci = self.class_of_rec(obj)
            if ci is not None and (ci.find_method(name, self.repo) or ci.find_const(name, self.repo)):
                return VBool(True)
            if getattr(obj.ty, "closed", False):
                return VBool(False)
        if isinstance(obj, VNode) and name is not NOCONST:
            h = getattr(obj.ty, "hasattr_term", None)
            t = h(self, obj, name) if h is not None else None
            if t is not None:
                return VBool(t)
        raise Unsupported(f"hasattr({obj}, {name})")

    def bi_id(self, args, kwargs, lineno):
        raise Unsupported("id()")

    def bi_hash(self, args, kwargs, lineno):
        v = args[0]
        if isinstance(v, VStr):
            self.ufs_used.add("hash(str)")
            return VInt(z3.Function("py.hash_str", z3.StringSort(), z3.IntSort())(v.t))
        raise Unsupported(f"hash({v})")

    # ------------------------------------------------------------------ methods of builtin types
    def call_method(self, recv, name, args, kwargs, lineno, src=None, fr=None):
        if isinstance(recv, VOpt):
            self.safety(z3.Not(recv.isnone), f"none .{name}()", lineno)
            recv = recv.val
        if isinstance(recv, VConst) and isinstance(recv.py, str):
            recv = lift(recv.py)
        if isinstance(recv, VStr):
            return self.str_method(recv, name, args, kwargs, lineno)
        if isinstance(recv, VList):
            r = self.list_method(recv, name, args, kwargs, lineno)
            origin = getattr(recv, "map_origin", None)
            if origin is not None and name in ("append", "extend", "clear", "insert", "pop"):
                # the list is the one stored under a key of a VMap (d[k].append(x)): the mutation reaches the dict
                m, k = origin
                m.vals = z3.Store(m.vals, k, m.ty.val.pack(recv))
            return r
        if isinstance(recv, VTuple):
            if name == "index" or name == "count":
                raise Unsupported(f"tuple.{name}")
        if isinstance(recv, VRec) and recv.ty.as_dict:
            return self.recdict_method(recv, name, args, kwargs, lineno)
        if isinstance(recv, VDict):
            return self.dict_method(recv, name, args, kwargs, lineno)
        if isinstance(recv, VAny):
            if name in ("get", "items", "keys"):
                self.safety(ValSort.is_D(recv.t), "type(dict) of dynamic value", lineno)
                return self.dict_method(self.dict_view(recv), name, args, kwargs, lineno)
            if name in ("startswith", "endswith", "lower", "upper", "strip", "split"):
                return self.str_method(coerce(recv, Str), name, args, kwargs, lineno)
        if isinstance(recv, VConst) and isinstance(recv.py, dict):
            if name == "get":
                k = concrete_of(args[0])
                if k is not NOCONST:
                    return lift(recv.py[k]) if k in recv.py else (args[1] if len(args) > 1 else VNone())
                res = args[1] if len(args) > 1 else VNone()
                for kk, vv in recv.py.items():
                    res = merge(eq(args[0], lift(kk)), lift(vv), res)
                return res
            if name == "items":
                return VList(None, items=[VTuple([lift(k), lift(v)]) for k, v in recv.py.items()])
            if name == "keys":
                return VList(None, items=[lift(k) for k in recv.py])
            if name == "values":
                return VList(None, items=[lift(v) for v in recv.py.values()])
        if isinstance(recv, VConst) and isinstance(recv.py, (set, frozenset)):
            if name == "copy" and not args:
                return VConst(frozenset(recv.py))  # constant sets are never mutated in the verified subset
            if name in ("union", "__or__") and all(isinstance(a, VConst) for a in args):
                return VConst(frozenset(recv.py).union(*[a.py for a in args]))
        if isinstance(recv, (VOpaque, VNode)) or (isinstance(recv, VRec) and not recv.ty.as_dict):
            # (records: methods inherited from a base class outside the repository, e.g. ast.NodeVisitor)
            tyname = recv.ty.name
            h = EXTERNALS.get(f"{tyname}.{name}")
            if h is not None:
                self.external_used.add(f"{tyname}.{name}")
                return h(self, [recv] + list(args), kwargs, lineno)
        raise Unsupported(f"method {name}() on {recv}")

    def opaque_attr(self, obj, attr, lineno):
        h = EXTERNALS.get(f"{obj.ty.name}.@{attr}")
        if h is not None:
            self.external_used.add(f"{obj.ty.name}.@{attr}")
            return h(self, [obj], {}, lineno)
        return None

    def _str_uf(self, name, *sorts):
        self.ufs_used.add(name)
        return z3.Function(name, *sorts)

    def str_method(self, s: VStr, name, args, kwargs, lineno):
        cs = concrete_of(s)
        cargs = [concrete_of(a) for a in args]
        if cs is not NOCONST and all(c is not NOCONST for c in cargs) and not kwargs and name not in ("format",):
            try:
                r = getattr(cs, name)(*cargs)
            except ValueError:
                raise RaiseSig(VExc("ValueError"))
            return lift(r)
        S = z3.StringSort()
        if name in ("startswith", "endswith"):
            a = args[0]
            if len(args) > 1:
                raise Unsupported(f"str.{name} with start index")
            alts = a.items if isinstance(a, VTuple) else (self.concrete_items(a) if isinstance(a, VConst) else [a])
            fn = z3.PrefixOf if name == "startswith" else z3.SuffixOf
            ts = [fn(coerce(x, Str).t, s.t) for x in alts]
            return VBool(z3.Or(ts) if len(ts) > 1 else ts[0])
        if name in ("find", "index", "rfind"):
            if name == "rfind":
                raise Unsupported("str.rfind")
            sub = coerce(args[0], Str).t
            start = coerce(args[1], Int).t if len(args) > 1 else z3.IntVal(0)
            idx = z3.IndexOf(s.t, sub, start)
            if name == "index":
                self.maybe_raise(idx >= 0, "ValueError", lineno)
            return VInt(idx)
        if name == "replace" and len(args) == 2:
            a, b = coerce(args[0], Str).t, coerce(args[1], Str).t
            f = self._str_uf("str.replace_all", S, S, S, S)
            r = f(s.t, a, b)
            # exact facts used by the proofs: no occurrence -> unchanged; result has no occurrence of `a` when b has none
            self.assume(z3.Implies(z3.Not(z3.Contains(s.t, a)), r == s.t))
            self.assume(z3.Implies(z3.And(z3.Length(a) > 0, z3.Not(z3.Contains(b, a)), z3.Length(b) <= 1, z3.Length(a) == 1),
                                   z3.Not(z3.Contains(r, a))))
            return VStr(r)
        if name == "decode":
            return VStr(s.t, is_bytes=False)
        if name == "encode":
            return VStr(s.t, is_bytes=True)
        if name in ("lower", "upper", "strip", "lstrip", "rstrip", "title", "capitalize", "casefold", "swapcase") and not args:
            f = self._str_uf(f"str.{name}", S, S)
            r = f(s.t)
            if name in ("lower", "upper", "strip", "lstrip", "rstrip", "casefold"):
                self.assume(f(r) == r)  # idempotent
            if name == "rstrip":
                self.assume(z3.PrefixOf(r, s.t))  # only trailing characters are removed
            if name == "lstrip":
                self.assume(z3.SuffixOf(r, s.t))  # only leading characters are removed
            if name in ("strip", "lstrip", "rstrip"):
                self.assume(z3.Contains(s.t, r))
                self.assume(z3.Length(r) <= z3.Length(s.t))
                self.assume(z3.Implies(z3.Length(s.t) == 0, r == s.t))
            if name in ("lower", "upper"):
                self.assume(z3.Length(r) >= 0)
            return VStr(r, is_bytes=s.is_bytes)
        if name in ("strip", "lstrip", "rstrip") and len(args) == 1:
            f = self._str_uf(f"str.{name}_chars", S, S, S)
            r = f(s.t, coerce(args[0], Str).t)
            self.assume(z3.Contains(s.t, r))
            return VStr(r)
        if name in ("isupper", "islower", "isdigit", "isalpha", "isalnum", "isspace", "isidentifier", "isnumeric"):
            f = self._str_uf(f"str.{name}", S, z3.BoolSort())
            if name in ("isdigit", "isalpha", "isalnum", "isspace", "isupper", "islower"):
                self.assume(z3.Implies(f(s.t), z3.Length(s.t) > 0))
            return VBool(f(s.t))
        if name in ("split", "rsplit", "splitlines", "partition", "rpartition"):
            sep = coerce(args[0], Str).t if args and not isinstance(args[0], VNone) else z3.StringVal("\x00none")
            if len(args) > 1 or kwargs:
                mx = args[1] if len(args) > 1 else kwargs.get("maxsplit")
                f = self._str_uf(f"str.{name}_n", S, S, z3.IntSort(), z3.SeqSort(S))
                r = f(s.t, sep, coerce(mx, Int).t)
            else:
                f = self._str_uf(f"str.{name}", S, S, z3.SeqSort(S))
                r = f(s.t, sep)
            if name in ("partition", "rpartition"):
                self.assume(z3.Length(r) == 3)
                self.assume(z3.Concat(r[0], r[1], r[2]) == s.t)
                self.assume(z3.Or(r[1] == sep, z3.And(r[1] == z3.StringVal(""), z3.Not(z3.Contains(s.t, sep)))))
                return VTuple([VStr(r[0]), VStr(r[1]), VStr(r[2])])
            if name in ("split", "rsplit") and args and not isinstance(args[0], VNone):
                self.assume(z3.Length(r) >= 1)
                self.assume(z3.Implies(z3.Not(z3.Contains(s.t, sep)), r == z3.Unit(s.t)))
                self.assume(z3.Implies(z3.Contains(s.t, sep), z3.Length(r) >= 2))
            return VList(Str, seq=r)
        if name == "join":
            items = self.concrete_items(args[0])
            if items is not None:
                if not items:
                    return VStr("")
                parts = []
                for i, x in enumerate(items):
                    if i:
                        parts.append(s.t)
                    parts.append(coerce(x, Str).t)
                return VStr(z3.Concat(*parts) if len(parts) > 1 else parts[0])
            lst = args[0]
            if isinstance(lst, VList) and lst.elem is Str:
                f = self._str_uf("str.join", S, z3.SeqSort(S), S)
                r = f(s.t, lst.seq)
                self.assume(z3.Implies(z3.Length(lst.seq) == 0, r == z3.StringVal("")))
                self.assume(z3.Implies(z3.Length(lst.seq) == 1, r == lst.seq[0]))
                return VStr(r)
        if name == "count":
            f = self._str_uf("str.count", S, S, z3.IntSort())
            r = f(s.t, coerce(args[0], Str).t)
            self.assume(r >= 0)
            self.assume((r > 0) == z3.Contains(s.t, coerce(args[0], Str).t))
            return VInt(r)
        if name == "format":
            raise Unsupported("str.format")
        if name in ("removeprefix", "removesuffix"):
            a = coerce(args[0], Str).t
            if name == "removeprefix":
                return VStr(z3.If(z3.PrefixOf(a, s.t), z3.SubString(s.t, z3.Length(a), z3.Length(s.t) - z3.Length(a)), s.t))
            return VStr(z3.If(z3.SuffixOf(a, s.t), z3.SubString(s.t, 0, z3.Length(s.t) - z3.Length(a)), s.t))
        raise Unsupported(f"str.{name}()")

    def list_extend(self, lst: VList, other):
        items = self.concrete_items(other)
        if lst.items is not None and items is not None:
            lst.items.extend(items)
            if lst.elem is None and items:
                from .ex import _type_of_value
                try:
                    lst.elem = _type_of_value(items[0])
                except Unsupported:
                    pass
            return
        elem = lst.elem or (other.elem if isinstance(other, VList) else None)
        if elem is None:
            raise Unsupported("extend of list with unknown element type")
        lst.elem = elem
        t = z3.Concat(SeqOf(elem).pack(lst), SeqOf(elem).pack(other))
        lst.items = None
        lst.seq = t

    def list_method(self, lst: VList, name, args, kwargs, lineno):
        if getattr(lst, "assoc", False) and name == "items":
            return lst
        if getattr(lst, "assoc", False) and name in ("values", "keys") and lst.items is not None:
            return VList(lst.elem.elems[1 if name == "values" else 0] if lst.elem is not None else None,
                         items=[x.items[1 if name == "values" else 0] for x in lst.items])
        if getattr(lst, "assoc", False) and name in ("values", "keys") and lst.seq is not None:
            # d.values() / d.keys() of an association list: the projection of every pair (generated map function)
            elem = lst.elem
            x = z3.Const(f"cx!assoc_{name}_{elem.name}", elem.sort())
            xv = elem.wrap(x)
            part = xv.items[1 if name == "values" else 0]
            oty = elem.elems[1 if name == "values" else 0]
            f, caps = self._gen_recfun("mapfilter", elem, x, [oty.pack(part), z3.BoolVal(True)], oty)
            return VList(oty, seq=f(lst.seq, *caps))
        if getattr(lst, "is_set", False):
            if name != "add":
                raise Unsupported(f"set.{name}()")
            name = "append"
        if name == "append":
            x = args[0]
            if lst.items is not None:
                lst.items.append(x)
                if lst.elem is None:
                    from .ex import _type_of_value
                    try:
                        lst.elem = _type_of_value(x)
                    except Unsupported:
                        pass
            else:
                if isinstance(x, VOpt) and not isinstance(lst.elem, (Opt, NodeTy)) and lst.elem is not Any:
                    # an Optional appended to a list of non-optional elements: must be non-None here
                    self.safety(z3.Not(x.isnone), "none appended to a list of non-optional elements", lineno)
                    x = x.val
                lst.seq = z3.Concat(lst.seq, z3.Unit(lst.elem.pack(x)))
            return VNone()
        if name == "extend":
            self.list_extend(lst, args[0])
            return VNone()
        if name == "copy":
            return lst.clone({})
        if name == "index":
            if lst.seq is not None:
                idx = z3.IndexOf(lst.seq, z3.Unit(lst.elem.pack(args[0])), 0)
                self.maybe_raise(idx >= 0, "ValueError", lineno)
                return VInt(idx)
        if name == "pop" and lst.items is not None and not args:
            if not lst.items:
                raise RaiseSig(VExc("IndexError"))
            return lst.items.pop()
        if name == "clear":
            lst.items, lst.seq = [], None
            return VNone()
        if name == "insert" and lst.items is not None:
            i = concrete_of(args[0])
            if i is not NOCONST:
                lst.items.insert(i, args[1])
                return VNone()
        raise Unsupported(f"list.{name}()")

    def recdict_method(self, d: VRec, name, args, kwargs, lineno):
        if name == "get":
            k = concrete_of(args[0])
            default = args[1] if len(args) > 1 else VNone()
            if k is NOCONST:
                try:
                    res = default
                    for kk, vv in d.fields.items():
                        res = merge(eq(args[0], lift(kk)), vv, res)
                    return res
                except Unsupported:
                    # values without a common SMT representation (e.g. a table of functions): case split on the key
                    if self.merge_depth > 0:
                        raise
                    for kk, vv in d.fields.items():
                        if self.decide(eq(args[0], lift(kk))):
                            return vv
                    return default
            return d.fields.get(k, default)
        if name == "items":
            return VList(None, items=[VTuple([lift(k), v]) for k, v in d.fields.items()])
        if name == "keys":
            return VList(Str, items=[lift(k) for k in d.fields])
        if name == "values":
            return VList(None, items=list(d.fields.values()))
        if name == "setdefault":
            k = concrete_of(args[0])
            if k is not NOCONST:
                if k not in d.fields:
                    d.fields[k] = args[1] if len(args) > 1 else VNone()
                return d.fields[k]
        if name == "update":
            o = args[0]
            if isinstance(o, VRec) and o.ty.as_dict:
                d.fields.update(o.fields)
                return VNone()
        if name == "pop":
            k = concrete_of(args[0])
            if k is not NOCONST:
                if k in d.fields:
                    return d.fields.pop(k)
                if len(args) > 1:
                    return args[1]
                raise RaiseSig(VExc("KeyError"))
        if name == "copy":
            return VRec(d.ty, dict(d.fields))
        raise Unsupported(f"dict.{name}() on record-dict")

    def dict_method(self, d: VDict, name, args, kwargs, lineno):
        if name == "get":
            k = args[0]
            default = args[1] if len(args) > 1 else VNone()
            if isinstance(k, VOpt):
                # d.get(None) on a dict with string keys: the key is absent, the default is returned
                val = z3.Select(d.t, coerce(k.val, Str).t)
                present = z3.And(z3.Not(k.isnone), val != ValSort.Absent)
                return self._dyn_merge(present, VAny(val), default)
            k = coerce(k, Str)
            val = z3.Select(d.t, k.t)
            present = val != ValSort.Absent
            return self._dyn_merge(present, VAny(val), default)
        if name in ("setdefault", "pop"):
            from .ty import freeze_refs
            freeze_refs(d)
        if name == "setdefault":
            k = coerce(args[0], Str)
            val = z3.Select(d.t, k.t)
            dv = to_val(args[1]) if len(args) > 1 else ValSort.NoneV
            newval = z3.If(val != ValSort.Absent, val, dv)
            d.t = z3.Store(d.t, k.t, newval)
            return VAny(newval)
        if name == "copy":
            return VDict(d.t)
        if name == "clear" and not args and not kwargs:
            d.t = EmptyDict  # in-place: every key becomes absent
            return VNone()
        if name == "update" and len(args) == 1 and not kwargs and isinstance(args[0], VRec) and args[0].ty.as_dict \
                and not getattr(args[0].ty, "optkeys", False):
            for k, x in args[0].fields.items():  # d.update({"k": v, ...}) with literal keys: exact
                d.t = z3.Store(d.t, z3.StringVal(k), to_val(x))
            return VNone()
        if name == "update" and len(args) == 1 and not kwargs and isinstance(args[0], (VDict, VAny)):
            # d.update(other) with a symbolic `other`: TypeError/ValueError unless it is a mapping; the merged content
            # is not modelled -- the dict is forgotten (sound: nothing is claimed about it afterwards)
            if isinstance(args[0], VAny):
                self.maybe_raise(ValSort.is_D(args[0].t), "TypeError", lineno)
            d.t = z3.Const(fresh_name("updated"), d.t.sort())
            return VNone()
        if name == "update" and len(args) == 1 and not kwargs:
            # d.update(other): other's entries win (lambda k. other[k] if present else d[k]); mutates d in place
            from .ty import freeze_refs
            o = args[0]
            if isinstance(o, VAny):
                self.safety(ValSort.is_D(o.t), "type(dict) of dynamic value", lineno)
            b = Dict.pack(o)
            a = d.t
            freeze_refs(d)
            kk = z3.Const(fresh_name("k"), z3.StringSort())
            d.t = z3.Lambda([kk], z3.If(z3.Select(b, kk) != ValSort.Absent, z3.Select(b, kk), z3.Select(a, kk)))
            return VNone()
        if name == "update":
            raise Unsupported("dict.update with keyword arguments / several arguments")
        if name == "keys" and not args:
            # the key list of a symbolic dict: an uninterpreted view (nothing is assumed about which keys it contains)
            self.ufs_used.add("dict_keys (key list of a dict: uninterpreted)")
            return VList(Str, seq=z3.Function("uf.dict_keys", Dict.sort(), z3.SeqSort(z3.StringSort()))(d.t))
        if name in ("items", "keys", "values"):
            raise Unsupported(f"iteration over a symbolic dict (.{name}()): give the function a contract with an explicit key set")
        if name == "pop":
            k = coerce(args[0], Str)
            val = z3.Select(d.t, k.t)
            if len(args) > 1:
                res = self._dyn_merge(val != ValSort.Absent, VAny(val), args[1])
            else:
                self.maybe_raise(val != ValSort.Absent, "KeyError", lineno)
                res = VAny(val)
            d.t = z3.Store(d.t, k.t, ValSort.Absent)
            return res
        raise Unsupported(f"dict.{name}()")

    def _dyn_merge(self, cond, a: VAny, default):
        c = simp(cond)
        if z3.is_true(c):
            return a
        if z3.is_false(c):
            return default
        try:
            dv = to_val(default)
        except Unsupported:
            if self.merge_depth > 0:
                raise
            return a if self.decide(c) else default
        return VAny(z3.If(c, a.t, dv))
