"""pyvc.ex_expr -- expression evaluation."""
from __future__ import annotations

import ast

import z3

from .ops import NOCONST, concrete_of, eq, int_to_str, merge, simp, truthy
from .resolve import ClassInfo, FuncInfo
from .run import RaiseSig
from .ty import (Any, Bool, Bytes, Dict, Int, NodeTy, NoneT, Opt, Rec, SeqOf, Str, TupleOf, Unsupported, V, VAny, VBool,
                 VClass, VConst, VDict, VExc, VFunc, VInt, VList, VNode, VNone, VOpaque, VOpt, VRec, VStr, VTuple,
                 ValSort, coerce, fresh_name, lift, to_val)


class VMethod(V):
    """Bound builtin method (str.startswith, list.append, dict.get ...)."""

    def __init__(self, recv, name, src=None):
        self.recv = recv
        self.name = name
        self.src = src  # ast of the receiver expression (for in-place rebinding)
        from .ty import ConstT
        self.ty = ConstT


class ExprMixin:
    def eval(self, e, fr) -> V:
        m = getattr(self, "ex_" + type(e).__name__, None)
        if m is None:
            raise Unsupported(f"expression {type(e).__name__} at line {getattr(e, 'lineno', '?')}")
        return m(e, fr)

    # ---- atoms
    def ex_Constant(self, e, fr):
        if isinstance(e.value, float):
            return VConst(e.value)
        if e.value is Ellipsis:
            return VConst(Ellipsis)
        return lift(e.value)

    def ex_Name(self, e, fr):
        v = fr.lookup(e.id)
        if v is not None:
            return v
        v = self.module_name(fr.module, e.id)
        if v is not None:
            return v
        raise Unsupported(f"unknown name {e.id!r} at line {e.lineno} in {self.cur_func}")

    def ex_NamedExpr(self, e, fr):
        v = self.eval(e.value, fr)
        fr.assign(e.target.id, v)
        return v

    def ex_Tuple(self, e, fr):
        items = []
        for x in e.elts:
            if isinstance(x, ast.Starred):
                ci = self.concrete_items(self.eval(x.value, fr))
                if ci is None:
                    raise Unsupported("starred element of unknown length")
                items.extend(ci)
            else:
                items.append(self.eval(x, fr))
        return VTuple(items)

    def ex_List(self, e, fr):
        items = []
        for x in e.elts:
            if isinstance(x, ast.Starred):
                sv = self.eval(x.value, fr)
                ci = self.concrete_items(sv)
                if ci is None:
                    raise Unsupported("starred element of unknown length")
                items.extend(ci)
            else:
                items.append(self.eval(x, fr))
        elem = None
        if items:
            try:
                from .ex import _type_of_value
                t0 = _type_of_value(items[0])
                if all(type(i) is type(items[0]) for i in items):
                    elem = t0
            except Unsupported:
                elem = None
        return VList(elem, items=items)

    def ex_Set(self, e, fr):
        vals = [concrete_of(self.eval(x, fr)) for x in e.elts]
        if any(v is NOCONST for v in vals):
            raise Unsupported("set display with symbolic elements")
        return VConst(frozenset(vals))

    def ex_Dict(self, e, fr):
        if any(k is None for k in e.keys):
            return self._dict_display_with_unpacking(e, fr)
        keys = []
        for k in e.keys:
            if k is None:
                raise Unsupported("dict unpacking in display")
            kv = concrete_of(self.eval(k, fr))
            if kv is NOCONST or not isinstance(kv, str):
                raise Unsupported("dict display with non-constant keys")
            keys.append(kv)
        vals = [self.eval(v, fr) for v in e.values]
        ty = Rec("dict", as_dict=True, **{k: v.ty for k, v in zip(keys, vals)})
        return VRec(ty, dict(zip(keys, vals)))

    def _dict_display_with_unpacking(self, e, fr):
        """{**a, 'k': v, **b}: left to right, later entries win. Symbolic operands give an Array term
        (lambda k. b[k] if present else acc[k])."""
        from .ty import Dict as _Dict, EmptyDict
        acc = EmptyDict
        for k, vx in zip(e.keys, e.values):
            v = self.eval(vx, fr)
            if k is None:
                if isinstance(v, VAny):
                    self.safety(ValSort.is_D(v.t), "type(dict) of dynamic value", e.lineno)
                b = _Dict.pack(v)
                kk = z3.Const(fresh_name("k"), z3.StringSort())
                acc = z3.Lambda([kk], z3.If(z3.Select(b, kk) != ValSort.Absent, z3.Select(b, kk), z3.Select(acc, kk)))
            else:
                kv = self.eval(k, fr)
                try:
                    tv = to_val(v)
                except Unsupported:
                    # a value with no Val representation (Path object, ...): the key IS present, its value is an
                    # unknown non-absent Val (sound over-approximation; nothing can be proved about that entry)
                    tv = z3.Const(fresh_name("dictval"), ValSort)
                    self.assume(tv != ValSort.Absent)
                acc = z3.Store(acc, coerce(kv, Str).t, tv)
        return VDict(acc)

    def ex_JoinedStr(self, e, fr):
        parts = []
        for p in e.values:
            if isinstance(p, ast.Constant):
                parts.append(z3.StringVal(p.value))
            else:
                if p.format_spec is not None or p.conversion not in (-1, 115):
                    if p.conversion == 114:  # !r
                        v = self.eval(p.value, fr)
                        parts.append(self.repr_of(v))
                        continue
                    raise Unsupported("f-string format spec")
                parts.append(self.str_of(self.eval(p.value, fr)).t)
        if not parts:
            return VStr("")
        return VStr(parts[0] if len(parts) == 1 else z3.Concat(*parts))

    def str_of(self, v) -> VStr:
        from .ty import VEnum
        if isinstance(v, VEnum):
            # str(member) / f"{member}" of an Enum is 'Class.MEMBER' (Enum.__str__; Python >= 3.11 also for str-mixin
            # enums) unless the class is a StrEnum or defines __str__ itself -- decided on the real class
            ci = self.repo.lookup_class(v.enum_ty.cls)
            is_strenum = any((b.id if isinstance(b, ast.Name) else getattr(b, "attr", "")) == "StrEnum" for b in ci.bases)
            if not is_strenum and ci.find_method("__str__", self.repo) is None and ci.find_method("__format__", self.repo) is None:
                nm = self.enum_member_name(v)
                return VStr(z3.Concat(z3.StringVal(ci.name + "."), nm.t))
            if not is_strenum:
                raise Unsupported(f"str() of a member of {ci.name}, which defines its own __str__/__format__")
            return VStr(v.t)
        c = concrete_of(v)
        if c is not NOCONST and not isinstance(v, VConst):
            return VStr(str(c))
        if isinstance(v, VConst) and isinstance(v.py, (int, float, str)):
            return VStr(str(v.py))
        if isinstance(v, VStr) and not v.is_bytes:
            return v
        if isinstance(v, VInt):
            return VStr(int_to_str(v.t))
        if isinstance(v, VBool):
            return VStr(z3.If(v.t, z3.StringVal("True"), z3.StringVal("False")))
        if isinstance(v, VNone):
            return VStr("None")
        if isinstance(v, VOpt):
            return VStr(z3.If(v.isnone, z3.StringVal("None"), self.str_of(v.val).t))
        if isinstance(v, VAny):
            self.ufs_used.add("str(Any)")
            f = z3.Function("str.of_val", ValSort, z3.StringSort())
            t = v.t
            return VStr(z3.If(ValSort.is_S(t), ValSort.sv(t), z3.If(ValSort.is_I(t), int_to_str(ValSort.iv(t)), f(t))))
        if isinstance(v, VOpaque):
            self.ufs_used.add(f"str({v.ty.name})")
            nm = {"Path": "uf.path_str"}.get(v.ty.name, f"str.of_{v.ty.name}")
            f = z3.Function(nm, v.ty.sort(), z3.StringSort())
            return VStr(f(v.t))
        if isinstance(v, VExc):
            return self.str_of(v.msg) if v.msg is not None else VStr("")
        raise Unsupported(f"str() of {v}")

    def repr_of(self, v):
        c = concrete_of(v)
        if c is not NOCONST:
            return z3.StringVal(repr(c))
        if isinstance(v, VInt):
            return int_to_str(v.t)
        if isinstance(v, VStr):
            self.ufs_used.add("repr(str)")
            return z3.Function("str.repr", z3.StringSort(), z3.StringSort())(v.t)
        raise Unsupported(f"repr of {v}")

    # ---- operators
    def ex_BoolOp(self, e, fr):
        is_and = isinstance(e.op, ast.And)
        saved = len(self.run.ctx)
        vals, conds = [], []
        try:
            for i, x in enumerate(e.values):
                v = self.eval(x, fr)
                vals.append(v)
                if i < len(e.values) - 1:
                    raw = truthy(v)
                    c = simp(raw)
                    # the merge below uses the UNSIMPLIFIED condition: it is the same term as the operand's value, so
                    # closure conversion of comprehension predicates sees one captured subterm, not two spellings of it
                    conds.append(c if (z3.is_true(c) or z3.is_false(c)) else raw)
                    if (is_and and z3.is_false(c)) or ((not is_and) and z3.is_true(c)):
                        break
                    # later operands are evaluated only if this one is truthy (and) / falsy (or)
                    self.run.ctx.append(c if is_and else z3.Not(c))
        except RaiseSig:
            # an exception escaping from a later operand means that operand WAS evaluated: its guards hold on this path
            self.run.pc.extend(self.run.ctx[saved:])
            raise
        finally:
            del self.run.ctx[saved:]
        # result value: first falsy (and) / first truthy (or), else last
        res = vals[-1]
        for v, c in reversed(list(zip(vals[:-1], conds))):
            if is_and:
                res = self._bool_merge(c, res, v)
            else:
                res = self._bool_merge(c, v, res)
        return res

    def _bool_merge(self, c, a, b):
        if isinstance(a, VBool) and isinstance(b, VBool):
            return VBool(z3.If(c, a.t, b.t))
        try:
            return merge(c, a, b)
        except Unsupported:
            if self.merge_depth == 0 and self.spec_depth == 0:
                # operands of different representation (e.g. `path or ""`): the VALUE may be used (str(...)), so
                # split the path instead of collapsing the result to its truth value
                return a if self.decide(c) else b
            # only the truth value matters in most uses (conditions); keep truthiness
            return VBool(z3.If(c, truthy(a), truthy(b)))

    def ex_UnaryOp(self, e, fr):
        v = self.eval(e.operand, fr)
        if isinstance(e.op, ast.Not):
            return VBool(z3.Not(truthy(v)))
        if isinstance(e.op, ast.USub):
            if isinstance(v, VConst) and isinstance(v.py, float):
                return VConst(-v.py)
            return VInt(-coerce(v, Int).t)
        if isinstance(e.op, ast.UAdd):
            return v
        raise Unsupported(f"unary {type(e.op).__name__}")

    def ex_BinOp(self, e, fr):
        return self.binop(e.op, self.eval(e.left, fr), self.eval(e.right, fr), e.lineno)

    def binop(self, op, a, b, lineno=0):
        if isinstance(op, ast.Div) and isinstance(a, VOpt) and isinstance(a.val, VOpaque):
            self.safety(z3.Not(a.isnone), "none operand", lineno)  # `maybe_path / name`: TypeError on None
            a = a.val
        if isinstance(op, ast.Div) and isinstance(a, VOpaque):
            from .ex_call import EXTERNALS
            h = EXTERNALS.get(f"{a.ty.name}.__truediv__")  # e.g. pathlib: path / "name"
            if h is not None:
                self.external_used.add(f"{a.ty.name}.__truediv__")
                return h(self, [a, b], {}, lineno)
        ca, cb = concrete_of(a), concrete_of(b)
        if isinstance(a, VOpt):
            self.safety(z3.Not(a.isnone), "none operand", lineno)
            a = a.val
        if isinstance(b, VOpt):
            self.safety(z3.Not(b.isnone), "none operand", lineno)
            b = b.val
        if isinstance(a, VAny) and isinstance(b, (VInt, VBool)):
            a = coerce(a, Int)
        if isinstance(b, VAny) and isinstance(a, (VInt, VBool)):
            b = coerce(b, Int)
        if isinstance(a, VAny) and isinstance(b, VStr):
            a = coerce(a, Str)
        if isinstance(b, VAny) and isinstance(a, VStr):
            b = coerce(b, Str)
        if isinstance(op, ast.Add):
            if isinstance(a, VList) and isinstance(b, VAny) and (a.elem is Str or (a.items and all(isinstance(x, VStr) for x in a.items))):
                # list[str] + <dynamic value>: modelled when the dynamic value is a list of str (else unsafe)
                self.safety(ValSort.is_LS(b.t), "type(list[str]) of dynamic value", lineno)
                b = coerce(b, SeqOf(Str))
                a = VList(Str, items=a.items, seq=a.seq)
            if isinstance(a, VStr) and isinstance(b, VStr):
                return VStr(z3.Concat(a.t, b.t), is_bytes=a.is_bytes)
            if isinstance(a, VList) and isinstance(b, VList):
                if a.items is not None and b.items is not None:
                    return VList(a.elem or b.elem, items=a.items + b.items)
                elem = a.elem or b.elem
                return VList(elem, seq=z3.Concat(SeqOf(elem).pack(a), SeqOf(elem).pack(b)))
            if isinstance(a, VTuple) and isinstance(b, VTuple):
                return VTuple(a.items + b.items)
        if isinstance(a, (VInt, VBool)) and isinstance(b, (VInt, VBool)):
            x, y = coerce(a, Int).t, coerce(b, Int).t
            if isinstance(op, ast.Add):
                return VInt(x + y)
            if isinstance(op, ast.Sub):
                return VInt(x - y)
            if isinstance(op, ast.Mult):
                return VInt(x * y)
            if isinstance(op, ast.FloorDiv):
                self.maybe_raise(y != 0, "ZeroDivisionError", lineno)
                return VInt(_floordiv(x, y))
            if isinstance(op, ast.Mod):
                self.maybe_raise(y != 0, "ZeroDivisionError", lineno)
                return VInt(_pymod(x, y))
        if isinstance(op, ast.Mult) and isinstance(a, VStr) and isinstance(b, VInt) and cb is not NOCONST:
            return VStr(z3.Concat(*([a.t] * cb)) if cb > 1 else (a.t if cb == 1 else z3.StringVal("")))
        if ca is not NOCONST and cb is not NOCONST:
            import operator
            ops = {ast.Add: operator.add, ast.Sub: operator.sub, ast.Mult: operator.mul, ast.Div: operator.truediv,
                   ast.FloorDiv: operator.floordiv, ast.Mod: operator.mod, ast.Pow: operator.pow,
                   ast.BitOr: operator.or_, ast.BitAnd: operator.and_}
            if type(op) in ops:
                return lift(ops[type(op)](ca, cb))
        if isinstance(op, ast.BitOr) and isinstance(a, VConst) and isinstance(b, VConst):
            return VConst(a.py | b.py)
        raise Unsupported(f"binary {type(op).__name__} on {a}, {b}")

    def ex_Compare(self, e, fr):
        left = self.eval(e.left, fr)
        res = None
        saved = len(self.run.ctx)
        try:
            for op, rx in zip(e.ops, e.comparators):
                right = self.eval(rx, fr)
                c = self.compare(op, left, right, e.lineno)
                res = c if res is None else z3.And(res, c)
                self.run.ctx.append(c)
                left = right
        finally:
            del self.run.ctx[saved:]
        return VBool(res)

    def compare(self, op, a, b, lineno=0):
        if isinstance(op, (ast.Is, ast.Eq)):
            if isinstance(op, ast.Is) and not (isinstance(a, (VNone, VBool, VConst)) or isinstance(b, (VNone, VBool, VConst))
                                               or isinstance(a, VNode) or isinstance(b, VNode)):
                if a is b:
                    return z3.BoolVal(True)
                raise Unsupported("`is` on non-singleton values")
            return eq(a, b)
        if isinstance(op, (ast.IsNot, ast.NotEq)):
            return z3.Not(self.compare(ast.Is() if isinstance(op, ast.IsNot) else ast.Eq(), a, b, lineno))
        if isinstance(op, ast.In):
            return self.contains(b, a, lineno)
        if isinstance(op, ast.NotIn):
            return z3.Not(self.contains(b, a, lineno))
        # ordering
        if isinstance(a, VOpt):
            self.safety(z3.Not(a.isnone), "none compare", lineno)
            a = a.val
        if isinstance(b, VOpt):
            self.safety(z3.Not(b.isnone), "none compare", lineno)
            b = b.val
        if isinstance(a, VAny) and isinstance(b, (VInt, VBool)):
            self.note_any_typed(a, "int", lineno)
            a = coerce(a, Int)
        if isinstance(b, VAny) and isinstance(a, (VInt, VBool)):
            self.note_any_typed(b, "int", lineno)
            b = coerce(b, Int)
        if isinstance(a, VAny) and isinstance(b, VAny):
            # two dynamic values: only the numeric ordering is modelled (both must be int/bool, else undecided/unsafe)
            self.note_any_typed(a, "int", lineno)
            self.note_any_typed(b, "int", lineno)
            a, b = coerce(a, Int), coerce(b, Int)
        if isinstance(a, (VInt, VBool)) and isinstance(b, (VInt, VBool)):
            x, y = coerce(a, Int).t, coerce(b, Int).t
            return {ast.Lt: x < y, ast.LtE: x <= y, ast.Gt: x > y, ast.GtE: x >= y}[type(op)]
        if isinstance(a, VTuple) and isinstance(b, VTuple) and len(a.items) == len(b.items) and a.items:
            # lexicographic
            first = self.compare(op, a.items[0], b.items[0], lineno) if len(a.items) == 1 else None
            if first is not None:
                return first
            strict = ast.Lt() if isinstance(op, (ast.Lt, ast.LtE)) else ast.Gt()
            return z3.Or(self.compare(strict, a.items[0], b.items[0], lineno),
                         z3.And(eq(a.items[0], b.items[0]),
                                self.compare(op, VTuple(a.items[1:]), VTuple(b.items[1:]), lineno)))
        ca, cb = concrete_of(a), concrete_of(b)
        if ca is not NOCONST and cb is not NOCONST:
            import operator
            f = {ast.Lt: operator.lt, ast.LtE: operator.le, ast.Gt: operator.gt, ast.GtE: operator.ge}[type(op)]
            return z3.BoolVal(f(ca, cb))
        from .ty import VSet
        if (isinstance(a, VSet) or isinstance(b, VSet)) and self.merge_depth == 0 and self.spec_depth == 0:
            # subset / superset test involving a symbolic set: not modelled -- an ARBITRARY truth value (both branches are
            # explored; nothing can be proved FROM the outcome, only about code that does not depend on it)
            self.ufs_used.add("set inclusion on a symbolic set: arbitrary truth value")
            return z3.Const(fresh_name("set_inclusion"), z3.BoolSort())
        raise Unsupported(f"ordering comparison on {a}, {b}")

    def note_any_typed(self, v, tyname, lineno):
        """A dynamically typed value is used as <tyname>: Python would raise TypeError otherwise."""
        test = {"int": z3.Or(ValSort.is_I(v.t), ValSort.is_B(v.t)), "str": ValSort.is_S(v.t)}[tyname]
        self.safety(test, f"type({tyname}) of dynamic value", lineno)

    def contains(self, container, item, lineno=0):
        if isinstance(container, VOpt):
            self.safety(z3.Not(container.isnone), "none container", lineno)
            container = container.val
        from .ty import VSet, VMap
        if isinstance(container, VSet):
            container = container.lst  # membership in set(xs) is membership in xs
        if isinstance(container, VMap):
            return z3.Select(container.present, container.ty.key.pack(item))
        if isinstance(container, VOpaque):
            # an opaque container type may declare its membership test: @external("<Type>.__contains__")
            from .ex_call import EXTERNALS
            h = EXTERNALS.get(f"{container.ty.name}.__contains__")
            if h is not None:
                self.external_used.add(f"{container.ty.name}.__contains__")
                return truthy(h(self, [container, item], {}, lineno))
        if isinstance(container, VConst):
            py = container.py
            if isinstance(py, (set, frozenset, tuple, list, dict)):
                ci = concrete_of(item)
                if ci is not NOCONST:
                    try:
                        return z3.BoolVal(ci in py)
                    except TypeError:
                        return z3.BoolVal(False)
                elems = list(py)
                if not elems:
                    return z3.BoolVal(False)
                return z3.Or([eq(item, lift(x)) for x in elems])
            if isinstance(py, str):
                container = lift(py)
        if isinstance(container, VStr):
            if isinstance(item, VAny):
                item = coerce(item, Str)
            if isinstance(item, VOpt):
                self.safety(z3.Not(item.isnone), "none in str", lineno)
                item = item.val
            if not isinstance(item, VStr):
                raise Unsupported(f"`in` str with {item}")
            return z3.Contains(container.t, item.t)
        if isinstance(container, (VTuple,)) or (isinstance(container, VList) and container.items is not None):
            if not container.items:
                return z3.BoolVal(False)
            return z3.Or([eq(item, x) for x in container.items])
        if isinstance(container, VList):
            elem = container.elem
            if elem is Int and isinstance(item, VAny):
                # Python equality between numbers: a bool equals its int value; a non-number equals no int
                # (case split at the Bool level: no Seq-sorted ite, which the solvers handle badly -- see purify.py)
                t = item.t
                has = lambda k: z3.Contains(container.seq, z3.Unit(k))  # noqa: E731
                return z3.Or(z3.And(ValSort.is_I(t), has(ValSort.iv(t))),
                             z3.And(ValSort.is_B(t), ValSort.bv(t), has(z3.IntVal(1))),
                             z3.And(ValSort.is_B(t), z3.Not(ValSort.bv(t)), has(z3.IntVal(0))))
            return z3.Contains(container.seq, z3.Unit(elem.pack(item)))
        if isinstance(container, VRec) and container.ty.as_dict:
            ci = concrete_of(item)
            if ci is not NOCONST:
                if getattr(container.ty, "optkeys", False) and isinstance(container.fields.get(ci), VOpt):
                    return z3.Not(container.fields[ci].isnone)
                return z3.BoolVal(ci in container.fields)
            return z3.Or([eq(item, lift(k)) for k in container.fields]) if container.fields else z3.BoolVal(False)
        if isinstance(container, VDict):
            k = coerce(item, Str) if isinstance(item, VAny) else item
            if isinstance(k, VOpt):
                return z3.And(z3.Not(k.isnone), z3.Select(container.t, k.val.t) != ValSort.Absent)
            if not isinstance(k, VStr):
                return z3.BoolVal(False)
            return z3.Select(container.t, k.t) != ValSort.Absent
        if isinstance(container, VAny):
            # dynamic container: dict or list of strings
            t = container.t
            k = item
            if isinstance(k, VStr):
                return z3.If(ValSort.is_D(t), z3.Select(ValSort.dv(t), k.t) != ValSort.Absent,
                             z3.If(ValSort.is_LS(t), z3.Contains(ValSort.lsv(t), z3.Unit(k.t)),
                                   z3.And(ValSort.is_S(t), z3.Contains(ValSort.sv(t), k.t))))
        raise Unsupported(f"`in` on {container}")

    def ex_IfExp(self, e, fr):
        c = truthy(self.eval(e.test, fr))
        cs = simp(c)
        if z3.is_true(cs):
            return self.eval(e.body, fr)
        if z3.is_false(cs):
            return self.eval(e.orelse, fr)
        saved = len(self.run.ctx)
        try:
            self.run.ctx.append(cs)
            a = self.eval(e.body, fr)
            del self.run.ctx[saved:]
            self.run.ctx.append(z3.Not(cs))
            b = self.eval(e.orelse, fr)
        except RaiseSig:
            self.run.pc.extend(self.run.ctx[saved:])  # the raising branch was the one evaluated
            raise
        finally:
            del self.run.ctx[saved:]
        try:
            return merge(cs, a, b)
        except Unsupported:
            if self.merge_depth > 0:
                raise
            return a if self.decide(cs) else b

    def ex_Lambda(self, e, fr):
        fn = ast.FunctionDef(name="<lambda>", args=e.args, body=[ast.Return(value=e.body, lineno=e.lineno, col_offset=0)],
                             decorator_list=[], lineno=e.lineno, col_offset=0)
        info = FuncInfo(f"{self.cur_func}.<lambda>@{e.lineno}", fr.module, fn, kind="lambda")
        return VFunc(info, closure=fr)

    # ---- attribute / subscript
    def ex_Attribute(self, e, fr):
        obj = self.eval(e.value, fr)
        return self.getattr(obj, e.attr, e, fr)

    def getattr(self, obj, attr, e=None, fr=None):
        lineno = getattr(e, "lineno", 0)
        if isinstance(obj, VOpt):
            self.safety(z3.Not(obj.isnone), f"none .{attr}", lineno)
            obj = obj.val
        if isinstance(obj, VNone):
            self.safety(z3.BoolVal(False), f"none .{attr}", lineno)
        if isinstance(obj, VRec):
            if attr in obj.fields:
                return obj.fields[attr]
            ci = self.class_of_rec(obj)
            if ci is not None:
                r = self.class_attr(ci, attr, obj)
                if r is not None:
                    return r
            if obj.ty.as_dict and attr in ("get", "items", "keys", "values", "setdefault", "update", "pop", "copy"):
                return VMethod(obj, attr, e.value if e is not None else None)
            from .ex_call import EXTERNALS
            if f"{obj.ty.name}.{attr}" in EXTERNALS:
                return VMethod(obj, attr, e.value if e is not None else None)  # inherited from an external base class
            raise Unsupported(f"record {obj.ty.name} has no field/method {attr!r} (declare it in the contract types)")
        if isinstance(obj, VNode):
            return self.node_attr(obj, attr, lineno)
        from .ty import VEnum
        if isinstance(obj, VEnum) and attr in ("value", "name"):
            return VStr(obj.t) if attr == "value" else self.enum_member_name(obj)
        if isinstance(obj, VClass):
            self.resolve_vclass(obj)
            if isinstance(obj.info, ClassInfo):
                r = self.class_attr(obj.info, attr, None)
                if r is not None:
                    return r
                raise Unsupported(f"class {obj.info.name} has no attribute {attr}")
            return VConst(("ext", f"{obj.info}.{attr}"))
        if isinstance(obj, VConst) and isinstance(obj.py, tuple) and len(obj.py) == 2 and obj.py[0] == "ext":
            return self.external_attr(obj.py[1], attr)
        if isinstance(obj, VConst) and isinstance(obj.py, tuple) and len(obj.py) == 2 and obj.py[0] == "repomod":
            # `from pkg import module` followed by `module.name`: resolve the name in that repository module
            r = self.module_name(self.repo.module(obj.py[1]), attr)
            if r is None:
                raise Unsupported(f"module {obj.py[1]} has no attribute {attr!r}")
            return r
        if isinstance(obj, VTuple) and hasattr(obj, "names") and attr in obj.names:
            return obj.items[obj.names.index(attr)]
        if isinstance(obj, VExc):
            if attr == "args":
                return VTuple([obj.msg] if obj.msg is not None else [])
        if isinstance(obj, VOpaque):
            h = self.opaque_attr(obj, attr, lineno)
            if h is not None:
                return h
        return VMethod(obj, attr, e.value if e is not None else None)

    def node_attr(self, node: VNode, attr, lineno=0):
        nty = node.ty
        self.safety(node.t != nty.null, f"none .{attr}", lineno)
        alias = getattr(nty, "attr_alias", None)
        if alias is not None:
            # one Python attribute name with two meanings depending on the node kind (ast.Constant.value is the
            # constant, every other .value is a child node): the hook decides the kind (forks, or needs entailment)
            attr = alias(self, node, attr, lineno) or attr
        if attr not in nty.attrs:
            if attr in getattr(nty, "methods", ()):
                return VMethod(node, attr)
            raise Unsupported(f"node type {nty.name} has no modelled attribute {attr!r}")
        aty = nty.attrs[attr]
        term = nty.attr_func(attr)(node.t)
        v = aty.wrap(term)
        if isinstance(v, VList):
            v.origin = (node, attr)
        hook = getattr(nty, "on_attr", None)
        if hook is not None:
            hook(self, node, attr, v)
        return v

    def node_child_fact(self, origin, child):
        node, attr = origin
        hook = getattr(node.ty, "on_child", None)
        if hook is not None:
            hook(self, node, attr, child)

    def ex_Subscript(self, e, fr):
        obj = self.eval(e.value, fr)
        if isinstance(e.slice, ast.Slice):
            lo = self.eval(e.slice.lower, fr) if e.slice.lower is not None else None
            hi = self.eval(e.slice.upper, fr) if e.slice.upper is not None else None
            if e.slice.step is not None:
                raise Unsupported("slice step")
            return self.slice(obj, lo, hi, e.lineno)
        key = self.eval(e.slice, fr)
        return self.getitem(obj, key, e.lineno)

    def _norm_index(self, i, n):
        return z3.If(i < 0, i + n, i)

    def slice(self, obj, lo, hi, lineno):
        r = self._slice(obj, lo, hi, lineno)
        if isinstance(r, VList) and getattr(obj, "assoc", False):
            r.assoc = True  # a slice of an association list is an association list
        return r

    def _slice(self, obj, lo, hi, lineno):
        if isinstance(obj, VOpt):
            self.safety(z3.Not(obj.isnone), "none slice", lineno)
            obj = obj.val
        if isinstance(obj, (VList, VTuple)) and (not isinstance(obj, VList) or obj.items is not None):
            clo = 0 if lo is None else concrete_of(lo)
            chi = len(obj.items) if hi is None else concrete_of(hi)
            if clo is not NOCONST and chi is not NOCONST:
                items = obj.items[clo:chi]
                return VTuple(items) if isinstance(obj, VTuple) else VList(obj.elem, items=items)
            if isinstance(obj, VList) and obj.elem is not None:
                obj = VList(obj.elem, seq=obj.term())
        if isinstance(obj, VStr) or (isinstance(obj, VList) and obj.seq is not None):
            t = obj.t if isinstance(obj, VStr) else obj.seq
            n = z3.Length(t)
            clo = None if lo is None else concrete_of(lo)
            if hi is None and isinstance(clo, int) and clo >= 0:
                r = z3.SubSeq(t, z3.IntVal(clo), n - clo) if not isinstance(obj, VStr) else z3.SubString(t, z3.IntVal(clo), n - clo)
                return VStr(r, is_bytes=obj.is_bytes) if isinstance(obj, VStr) else VList(obj.elem, seq=r)
            chi = None if hi is None else concrete_of(hi)
            if (lo is None or clo == 0) and isinstance(chi, int) and not isinstance(chi, bool) and chi >= 0:
                # xs[:K] with a constant K >= 0: seq.extract / str.substr clip at the end of the sequence by definition,
                # so no conditional term is needed (Seq-sorted ite terms also trigger a z3 recfun soundness bug)
                r = z3.SubSeq(t, z3.IntVal(0), z3.IntVal(chi)) if not isinstance(obj, VStr) else z3.SubString(t, z3.IntVal(0), z3.IntVal(chi))
                return VStr(r, is_bytes=obj.is_bytes) if isinstance(obj, VStr) else VList(obj.elem, seq=r)
            if (lo is None or clo == 0) and isinstance(chi, int) and not isinstance(chi, bool) and chi < 0:
                # xs[:-K], K > 0: the first len-K elements; seq.extract / str.substr yield the empty sequence for a
                # non-positive length by definition (K >= len), exactly Python's result
                r = z3.SubSeq(t, z3.IntVal(0), n + chi) if not isinstance(obj, VStr) else z3.SubString(t, z3.IntVal(0), n + chi)
                return VStr(r, is_bytes=obj.is_bytes) if isinstance(obj, VStr) else VList(obj.elem, seq=r)
            lo_t = z3.IntVal(0) if lo is None else self._clamp(self._norm_index(coerce(lo, Int).t, n), n)
            hi_t = n if hi is None else self._clamp(self._norm_index(coerce(hi, Int).t, n), n)
            ln = z3.If(hi_t > lo_t, hi_t - lo_t, z3.IntVal(0))
            r = z3.SubSeq(t, lo_t, ln) if not isinstance(obj, VStr) else z3.SubString(t, lo_t, ln)
            return VStr(r, is_bytes=obj.is_bytes) if isinstance(obj, VStr) else VList(obj.elem, seq=r)
        raise Unsupported(f"slice of {obj}")

    def _clamp(self, i, n):
        return z3.If(i < 0, z3.IntVal(0), z3.If(i > n, n, i))

    def getitem(self, obj, key, lineno=0):
        if getattr(obj, "is_set", False):
            raise Unsupported("subscript on a set")
        if isinstance(obj, VOpt):
            self.safety(z3.Not(obj.isnone), "none subscript", lineno)
            obj = obj.val
        from .ty import VMap
        if isinstance(obj, VMap):
            k = obj.ty.key.pack(key)
            self.maybe_raise(z3.Select(obj.present, k), "KeyError", lineno)
            v = obj.ty.val.wrap(z3.Select(obj.vals, k))
            if isinstance(v, VList):
                v.map_origin = (obj, k)  # d[k].append(x) mutates the list stored in the dict: written back by call_method
            return v
        if isinstance(obj, VOpaque):
            # an opaque container type may declare its subscript: @external("<Type>.__getitem__")
            from .ex_call import EXTERNALS
            h = EXTERNALS.get(f"{obj.ty.name}.__getitem__")
            if h is not None:
                self.external_used.add(f"{obj.ty.name}.__getitem__")
                return h(self, [obj, key], {}, lineno)
        ck = concrete_of(key)
        if isinstance(obj, VRec):
            if ck is not NOCONST and ck in obj.fields:
                fv = obj.fields[ck]
                if getattr(obj.ty, "optkeys", False) and isinstance(fv, VOpt):
                    self.maybe_raise(z3.Not(fv.isnone), "KeyError", lineno)
                    return fv.val
                return fv
            if ck is not NOCONST and obj.ty.as_dict:
                raise RaiseSig(VExc("KeyError", key))
            if obj.ty.as_dict and isinstance(key, VStr) and not getattr(obj.ty, "optkeys", False):
                # symbolic key into a dict with constant keys (module-level table): case split, else KeyError
                for k, val in obj.fields.items():
                    if self.decide(eq(key, lift(k))):
                        return val
                raise RaiseSig(VExc("KeyError", key))
            raise Unsupported(f"subscript {key} on record {obj.ty.name}")
        if isinstance(obj, VConst) and isinstance(obj.py, dict):
            if ck is not NOCONST:
                if ck in obj.py:
                    return lift(obj.py[ck])
                raise RaiseSig(VExc("KeyError", key))
            # symbolic key into a constant table: case split
            for k, val in obj.py.items():
                if self.decide(eq(key, lift(k))):
                    return lift(val)
            raise RaiseSig(VExc("KeyError", key))
        if isinstance(obj, (VTuple,)) or (isinstance(obj, VList) and obj.items is not None):
            if ck is not NOCONST:
                n = len(obj.items)
                if -n <= ck < n:
                    return obj.items[ck]
                if self.spec_depth > 0 or self.merge_depth > 0:
                    ety = getattr(obj, "elem", None)
                    if ety is not None:
                        return ety.fresh("unspecified")  # out-of-range read in contract text: arbitrary value
                raise RaiseSig(VExc("IndexError"))
            if isinstance(obj, VTuple):
                raise Unsupported("symbolic index into tuple")
            obj = VList(obj.elem, seq=obj.term())
        if isinstance(obj, VConst) and isinstance(obj.py, (tuple, list)):
            return self.getitem(lift(obj.py), key, lineno)
        if isinstance(obj, VList):
            i = coerce(key, Int).t
            n = z3.Length(obj.seq)
            self.maybe_raise(z3.And(i >= -n, i < n), "IndexError", lineno)
            idx = i if (ck is not NOCONST and isinstance(ck, int) and ck >= 0) else self._norm_index(i, n)
            v = obj.elem.wrap(obj.seq[idx])
            self.on_element(obj, v)
            return v
        if isinstance(obj, VStr):
            i = coerce(key, Int).t
            n = z3.Length(obj.t)
            self.maybe_raise(z3.And(i >= -n, i < n), "IndexError", lineno)
            return VStr(z3.SubString(obj.t, self._norm_index(i, n), 1), is_bytes=obj.is_bytes)
        if isinstance(obj, VDict):
            k = coerce(key, Str)
            val = z3.Select(obj.t, k.t)
            self.maybe_raise(val != ValSort.Absent, "KeyError", lineno)
            if self.spec_depth == 0 and self.merge_depth == 0:
                from .ty import VAnyRef
                return VAnyRef(obj, k.t)  # program text: the stored object itself (may be mutated through this name)
            return VAny(val)
        if isinstance(obj, VAny):
            if isinstance(key, VStr):
                self.safety(ValSort.is_D(obj.t), "type(dict) of dynamic value", lineno)
                return self.getitem(self.dict_view(obj), key, lineno)
        raise Unsupported(f"subscript on {obj}")

    def dict_view(self, v):
        """A dynamic value known to be a dict, as a dict object (a live view when v is a reference into a dict)."""
        from .ty import VAnyRef, VDictRef
        if isinstance(v, VAnyRef) and v.frozen is None:
            return VDictRef(v)
        return VDict(ValSort.dv(v.t))

    def setitem(self, obj, key, v, lineno=0):
        g = getattr(obj, "module_global", None)
        if g is not None and self.spec_depth == 0 and self.merge_depth == 0:
            top = getattr(self, "top_contract", None)
            if top is None or g not in (top.opts.get("modifies_globals") or ()):
                # item assignment into a module-level mutable object: process-wide state written by a function whose
                # contract does not declare it (modifies_globals=[...])
                self.oblige("frame", z3.BoolVal(False), lineno, label="frame.module_global",
                            note=f"writes into the module-level object {g}")
        from .ty import VMap
        if isinstance(obj, VMap):
            k = obj.ty.key.pack(key)
            obj.vals = z3.Store(obj.vals, k, obj.ty.val.pack(v))
            obj.present = z3.Store(obj.present, k, z3.BoolVal(True))
            return
        ck = concrete_of(key)
        if isinstance(obj, VRec) and ck is not NOCONST and (obj.ty.as_dict or ck in obj.fields):
            obj.fields[ck] = v
            return
        if isinstance(obj, VDict):
            from .ty import freeze_refs
            k = coerce(key, Str)
            freeze_refs(obj)
            try:
                val = to_val(v)
            except Unsupported:
                # a value with no Val representation (a Path, an object): stored as an UNKNOWN present value
                val = z3.Const(fresh_name("stored"), ValSort)
                self.assume(val != ValSort.Absent)
            obj.t = z3.Store(obj.t, k.t, val)
            return
        if isinstance(obj, VAny) and isinstance(key, VStr):
            from .ty import VAnyRef
            if isinstance(obj, VAnyRef) and obj.frozen is None:
                self.safety(ValSort.is_D(obj.t), "type(dict) of dynamic value", lineno)
                return self.setitem(self.dict_view(obj), key, v, lineno)
            raise Unsupported("item assignment through a dynamically typed alias (aliasing not tracked)")
        raise Unsupported(f"item assignment on {obj}")

    # ---- comprehensions
    def ex_ListComp(self, e, fr):
        return self.comprehension(e, fr, "list")

    def ex_GeneratorExp(self, e, fr):
        return self.comprehension(e, fr, "list")

    def ex_SetComp(self, e, fr):
        raise Unsupported("set comprehension")

    def ex_DictComp(self, e, fr):
        """{k: v for ...}: supported when every generator has a known length, the conditions are decided and the keys are
        constant strings (e.g. a lookup table derived from another literal table); later keys overwrite earlier ones."""
        from .ex import Frame
        pairs = []

        def rec(i, sub):
            if i == len(e.generators):
                kv = concrete_of(self.eval(e.key, sub))
                if kv is NOCONST or not isinstance(kv, str):
                    raise Unsupported("dict comprehension with non-constant keys")
                pairs.append((kv, self.eval(e.value, sub)))
                return
            g = e.generators[i]
            items = self.concrete_items(self.eval(g.iter, sub))
            if items is None:
                raise Unsupported("dict comprehension over a symbolic sequence")
            for x in items:
                self.assign_target(g.target, x, sub)
                oks = [simp(truthy(self.eval(c, sub))) for c in g.ifs]
                if any(not (z3.is_true(o) or z3.is_false(o)) for o in oks):
                    raise Unsupported("dict comprehension with a symbolic condition")
                if all(z3.is_true(o) for o in oks):
                    rec(i + 1, sub)
        rec(0, Frame(fr.module, fr.func, parent=fr, is_spec=fr.is_spec))
        fields = {}
        for k, v in pairs:
            fields.pop(k, None)
            fields[k] = v
        ty = Rec("dict", as_dict=True, **{k: v.ty for k, v in fields.items()})
        return VRec(ty, fields)

    def comprehension(self, e, fr, kind):
        """[elt for x in it if c...] -> list. Known-length iterables are unrolled; a z3 sequence becomes a
        memoised recursive map/filter function (so the same comprehension in code and spec is the same term)."""
        from .ex import Frame
        if len(e.generators) != 1:
            return self._comp_nested(e, fr)
        g = e.generators[0]
        it = self.eval(g.iter, fr)
        if isinstance(it, VList) and getattr(it, "assoc", False):
            it = self.list_method(it, "keys", [], {}, e.lineno)  # iterating a dict yields its keys
        items = self.concrete_items(it)
        sub = Frame(fr.module, fr.func, parent=fr, is_spec=fr.is_spec)
        sub.contract = fr.contract
        if items is not None:
            out = []
            for x in items:
                self.assign_target(g.target, x, sub)
                ok = z3.BoolVal(True)
                saved = len(self.run.ctx)
                try:
                    for cnd in g.ifs:
                        c = truthy(self.eval(cnd, sub))
                        ok = z3.And(ok, c)
                        self.run.ctx.append(c)
                    oks = simp(ok)
                    if z3.is_false(oks):
                        continue
                    val = self.eval(e.elt, sub)
                finally:
                    del self.run.ctx[saved:]
                if z3.is_true(oks):
                    out.append((None, val))
                else:
                    out.append((oks, val))
            if all(c is None for c, _ in out):
                vals = [v for _, v in out]
                return self._mk_list(vals)
            # conditional membership: build a sequence term
            vals = [v for _, v in out]
            from .ex import _type_of_value
            elem = _type_of_value(vals[0])
            srt = z3.SeqSort(elem.sort())
            parts = [z3.If(c, z3.Unit(elem.pack(v)), z3.Empty(srt)) if c is not None else z3.Unit(elem.pack(v))
                     for c, v in out]
            res = VList(elem, seq=z3.Concat(*parts) if len(parts) > 1 else parts[0])
            res.cond_items = (res.seq, out)  # (guard, value) per source item; valid while .seq is this very term
            return res
        if isinstance(it, VAny) and self.merge_depth == 0 and self.spec_depth == 0:
            # a dynamic value known (on this path) to be a list: iterate the representation it has (one path per
            # list representation of the value ADT); anything else stays unsupported
            for is_rep, elem in ((ValSort.is_LS, Str), (ValSort.is_LI, Int), (ValSort.is_LV, Any)):
                k = self.known(is_rep(it.t))
                if k is None:
                    k = self.decide(is_rep(it.t))
                if k:
                    return self._comp_recfun(e, g, coerce(it, SeqOf(elem)), fr)
        if isinstance(it, VList):
            return self._comp_recfun(e, g, it, fr)
        raise Unsupported(f"comprehension over {it}")

    def _comp_nested(self, e, fr):
        from .ex import Frame
        # all generators must be of known length
        out = []

        def rec(i, sub):
            if i == len(e.generators):
                out.append(self.eval(e.elt, sub))
                return
            g = e.generators[i]
            items = self.concrete_items(self.eval(g.iter, sub))
            if items is None:
                raise Unsupported("nested comprehension over symbolic sequence")
            for x in items:
                self.assign_target(g.target, x, sub)
                if all(self.decide(truthy(self.eval(c, sub))) for c in g.ifs):
                    rec(i + 1, sub)
        sub = Frame(fr.module, fr.func, parent=fr, is_spec=fr.is_spec)
        rec(0, sub)
        return self._mk_list(out)

    def _mk_list(self, vals):
        elem = None
        if vals:
            from .ex import _type_of_value
            try:
                if all(type(v) is type(vals[0]) for v in vals):
                    elem = _type_of_value(vals[0])
            except Unsupported:
                elem = None
        return VList(elem, items=vals)

    def _comp_recfun(self, e, g, it: VList, fr):
        """mapfilter over a z3 sequence as a memoised, closure-converted RecFunction."""
        from .ex import Frame
        elem = it.elem
        x = z3.Const(f"cx!{_mangle_sort(elem)}", elem.sort())
        sub = Frame(fr.module, fr.func, parent=fr, is_spec=fr.is_spec)
        sub.contract = fr.contract
        xv = elem.wrap(x)
        # a comprehension in CODE whose body calls a function that may raise (contract with raises_when): the element-
        # wise raising conditions are collected and lifted to `any(... for x in it)` -- the comprehension raises iff
        # some element does (apply_contract records them in binder_raises instead of forking under the binder)
        lifting = self.merge_depth == 0 and self.spec_depth == 0 and not fr.is_spec
        saved_br = getattr(self, "binder_raises", None)
        self.binder_raises = [] if lifting else None
        self.merge_depth += 1
        saved = len(self.run.ctx)
        try:
            self.on_element(it, xv)
            self.assign_target(g.target, xv, sub)
            ok = z3.BoolVal(True)
            for cnd in g.ifs:
                c = truthy(self.eval(cnd, sub))
                ok = z3.And(ok, c)
                self.run.ctx.append(c)
            val = self.eval(e.elt, sub)
            from .ty import VOpt as _VOpt
            if isinstance(val, _VOpt) and g.ifs and self.known(z3.Not(val.isnone)) is True:
                val = val.val  # the filter guarantees a non-None element: [v for ... if (v := f(x))] is a list of values
            lifted = list(self.binder_raises or [])
        finally:
            del self.run.ctx[saved:]
            self.merge_depth -= 1
            self.binder_raises = saved_br
        for rw, cls in lifted:
            some = self.seq_pred_recfun("any", it, x, z3.And(simp(ok), rw))
            if self.decide(some):
                raise RaiseSig(VExc(cls))
        from .ex import _type_of_value
        oty = _type_of_value(val)
        body_val = oty.pack(val)
        if z3.is_true(simp(ok)) and body_val.eq(x) and not lifted:
            return VList(elem, seq=it.seq)  # [x for x in xs] (filter statically true): the sequence itself
        f, caps = self._gen_recfun("mapfilter", elem, x, [body_val, ok], oty)
        return VList(oty, seq=f(it.seq, *caps))

    def _gen_recfun(self, kind, elem, x, terms, oty=None):
        """Memoised recursive function over Seq(elem); free constants of `terms` become extra parameters so
        that the same comprehension text denotes the same function in code, in specs and inside spec functions."""
        caps = []
        seen = set()
        for t in terms:
            for c in _captured_subterms(t, x):
                if c.get_id() in seen:
                    continue
                seen.add(c.get_id())
                caps.append(c)
        holes = [z3.Const(f"cap!{i}!{_mangle_name(c.sort().name())}", c.sort()) for i, c in enumerate(caps)]
        # captured subterms are cut out of the RAW terms (before simplification can push them apart), then simplified
        abst = [simp(z3.substitute(t, *zip(caps, holes)) if caps else t) for t in terms]
        memo = {}
        key = (kind, elem.name, oty.name if oty else "", tuple(_canon_key(t, memo) for t in abst))
        if key not in RECFUNS:
            isort = z3.SeqSort(elem.sort())
            if kind == "mapfilter":
                rs = z3.SeqSort(oty.sort())
            elif kind == "count":
                rs = z3.IntSort()
            else:
                rs = z3.BoolSort()
            f = z3.RecFunction(fresh_name(kind), isort, *[h.sort() for h in holes], rs)
            s = z3.Const(f"cs!{_mangle_sort(elem)}", isort)
            head = s[0]
            tail = z3.SubSeq(s, 1, z3.Length(s) - 1)
            inst = [z3.substitute(t, (x, head)) for t in abst]
            rec = f(tail, *holes)
            if kind == "mapfilter":
                hv, hok = inst
                body = z3.If(z3.Length(s) == 0, z3.Empty(rs), z3.Concat(z3.If(hok, z3.Unit(hv), z3.Empty(rs)), rec))
            elif kind == "any":
                body = z3.And(z3.Length(s) > 0, z3.Or(inst[0], rec))
            elif kind == "all":
                body = z3.Or(z3.Length(s) == 0, z3.And(inst[0], rec))
            else:
                body = z3.If(z3.Length(s) == 0, z3.IntVal(0), z3.If(inst[0], 1, 0) + rec)
            z3.RecAddDefinition(f, [s] + holes, body)
            RECFUNS[key] = f
        return RECFUNS[key], caps

    def seq_pred_recfun(self, kind, it: VList, x, pred):
        """any/all/count of `pred` (z3 Bool over bound constant x) on a z3 sequence."""
        f, caps = self._gen_recfun(kind, it.elem, x, [pred])
        return f(it.seq, *caps)

    def ex_Starred(self, e, fr):
        raise Unsupported("starred expression")

    def ex_Await(self, e, fr):
        raise Unsupported("await")

    def ex_Yield(self, e, fr):
        raise Unsupported("yield")


RECFUNS: dict = {}  # z3 RecFunctions live in the global context: one table per process


_AC_KINDS = (z3.Z3_OP_AND, z3.Z3_OP_OR, z3.Z3_OP_EQ, z3.Z3_OP_DISTINCT, z3.Z3_OP_ADD, z3.Z3_OP_MUL)


def _canon_key(t, memo):
    """Structural key of a term that is invariant under argument order of commutative operators (z3's simplifier
    orders such arguments by internal ids, so the same comprehension text could otherwise get different keys).
    Equal keys => terms equal up to commutativity, so sharing one RecFunction between them is sound."""
    import hashlib
    i = t.get_id()
    if i in memo:
        return memo[i]
    if z3.is_app(t) and t.num_args() > 0:
        d = t.decl()
        kids = [_canon_key(c, memo) for c in t.children()]
        if d.kind() in _AC_KINDS:
            kids = sorted(kids)
        try:
            params = [str(x) for x in d.params()]
        except Exception:  # noqa
            params = [d.sexpr()]
        r = hashlib.sha1("|".join([d.name(), str(d.kind()), ",".join(params), t.sort().sexpr()] + kids).encode()).hexdigest()
    else:
        r = t.sort().sexpr() + ":" + t.sexpr()
    memo[i] = r
    return r


def _mangle_name(n):
    return "".join(c if c.isalnum() else "_" for c in n)


def _captured_subterms(t, x):
    """Closure conversion: the maximal subterms of t that do not mention the bound element x but do mention some
    symbol (free constant / uninterpreted application). They become parameters of the generated function, so the
    same comprehension text denotes the same function whatever expression a captured variable currently holds."""
    has_x, has_sym = {}, {}

    def scan(e):
        i = e.get_id()
        if i in has_x:
            return
        hx, hs = False, False
        if z3.is_app(e):
            if e.eq(x):
                hx = True
            elif e.decl().kind() == z3.Z3_OP_UNINTERPRETED:
                hs = True
            for c in e.children():
                scan(c)
                hx = hx or has_x[c.get_id()]
                hs = hs or has_sym[c.get_id()]
        elif z3.is_quantifier(e):
            scan(e.body())
            hx, hs = True, has_sym[e.body().get_id()]  # never abstract across a binder
        has_x[i], has_sym[i] = hx, hs

    scan(t)
    shapes = {}

    def shape(e):
        # key of e in which every captured subterm counts only by its sort: used to visit the arguments of
        # commutative operators in an order that does not depend on z3's id-based argument order, so that terms
        # equal up to commutativity number their captures alike (ties between equal shapes: order as given)
        import hashlib
        i = e.get_id()
        if i not in shapes:
            if not has_x[i] and has_sym[i]:
                shapes[i] = "cap:" + e.sort().sexpr()
            elif z3.is_app(e) and e.num_args() > 0:
                kids = [shape(c) for c in e.children()]
                if e.decl().kind() in _AC_KINDS:
                    kids = sorted(kids)
                shapes[i] = hashlib.sha1("|".join([e.decl().name(), str(e.decl().kind()), e.sort().sexpr()] + kids).encode()).hexdigest()
            else:
                shapes[i] = e.sort().sexpr() + ":" + e.sexpr()
        return shapes[i]

    out, seen, todo = [], set(), [t]
    while todo:
        e = todo.pop()
        i = e.get_id()
        if i in seen:
            continue
        seen.add(i)
        if not has_x[i]:
            if has_sym[i]:
                out.append(e)
            continue
        if z3.is_app(e):
            kids = list(e.children())
            if e.decl().kind() in _AC_KINDS and len(kids) > 1:
                kids.sort(key=shape)
            todo.extend(reversed(kids))
    return out


def _mangle_sort(elem):
    return "".join(c if c.isalnum() else "_" for c in elem.name)


def _floordiv(x, y):
    return _fd(x, y)


def _fd(x, y):
    # floor(x / y): for y>0 z3 div is floor; for y<0: floor(x/y) = floor((-x)/(-y))
    return z3.If(y > 0, x / y, (-x) / (-y))


def _pymod(x, y):
    return x - y * _fd(x, y)
