"""pyvc.native -- run the REAL function on concrete inputs and evaluate the same contract natively (replay)."""
from __future__ import annotations

import copy
import importlib
import inspect
import os
import sys
import types as _types

from . import api
from .ty import Rec, SeqOf, Opt, TupleOf, NodeTy, Ty


def repo_root():
    return os.environ.get("VERIF_REPO", "/repo")


def _ensure_repo_on_path():
    """Make `import src...` resolve to the repository under verification ($VERIF_REPO or /repo). The interpreter's
    site-packages may carry an editable install of /repo, and a contract module may have imported `src` at load time:
    a `src` package loaded from anywhere else is dropped, so that native replays / bounded checks never run the code of
    a different tree than the one whose source the proofs read."""
    r = repo_root()
    m = sys.modules.get("src")
    f = getattr(m, "__file__", None) if m is not None else None
    if f and os.path.realpath(os.path.dirname(f)) != os.path.realpath(os.path.join(r, "src")):
        for k in [k for k in sys.modules if k == "src" or k.startswith("src.")]:
            del sys.modules[k]
    if not sys.path or sys.path[0] != r:
        if r in sys.path:
            sys.path.remove(r)
        sys.path.insert(0, r)


def resolve_target(target):
    """'src/a/b.py::Class.method' -> (callable or (cls, funcname))."""
    _ensure_repo_on_path()
    rel, qual = target.split("~")[0].split("::")  # (a view tag 'qualname~tag' names the same function)
    modname = rel[:-3].replace("/", ".")
    mod = importlib.import_module(modname)
    obj = mod
    parts = qual.split(".")
    owner = None
    for p in parts:
        owner = obj
        obj = inspect.getattr_static(obj, p) if inspect.isclass(obj) else getattr(obj, p)
    return mod, owner, obj


class FakeNode:
    """Duck-typed stand-in for a tree-sitter / ast node built from a counter-model."""

    def __init__(self, **kw):
        self.__dict__.update(kw)

    def __repr__(self):
        return f"FakeNode({self.__dict__.get('type', self.__dict__.get('_kind', '?'))})"


class AssocDict(dict):
    """A real dict (what the function under proof receives) that ALSO answers the association-list view contract text
    uses for an `Assoc` value: d[0] is the first (key, value) pair, d[1:] the remaining entries, in insertion order.
    Keys of an Assoc are strings, so integer / slice subscripts are unambiguous."""

    def __getitem__(self, k):
        if isinstance(k, int) and not isinstance(k, bool):
            return list(self.items())[k]
        if isinstance(k, slice):
            return AssocDict(list(self.items())[k])
        return dict.__getitem__(self, k)


def build_value(ty: Ty, mv, memo=None):
    """Model value (from verify.model_value) -> real Python object of the declared type."""
    if memo is None:
        memo = {}
    if isinstance(ty, Opt):
        return None if mv is None else build_value(ty.inner, mv, memo)
    from .ty import EnumOf
    if isinstance(ty, EnumOf):
        _ensure_repo_on_path()
        if ty.pycls:
            m, q = ty.pycls.split(":")
            cls = getattr(importlib.import_module(m), q)
        else:
            _, _, cls = resolve_target(ty.cls)
        try:
            return cls(mv)
        except ValueError:
            return list(cls)[0]  # the model's string is no member's value: any member (views differ only there)
    if isinstance(ty, Rec):
        fields = {k: build_value(t, mv.get(k), memo) for k, t in ty.fields.items()} if isinstance(mv, dict) else {}
        if getattr(ty, "build_native", None) is not None:
            return ty.build_native(fields)  # e.g. enum members: the real object is looked up, not constructed
        if ty.as_dict:
            if getattr(ty, "optkeys", False):
                return {k: v for k, v in fields.items() if v is not None}
            return fields
        if ty.pycls:
            _ensure_repo_on_path()
            m, q = ty.pycls.split(":")
            cls = getattr(importlib.import_module(m), q)
            try:
                obj = cls(**fields)
            except Exception:
                obj = object.__new__(cls)
                for k, v in fields.items():
                    object.__setattr__(obj, k, v)
            post = getattr(ty, "native_post", None)  # optional per-type fix-up of the native rendering
            return post(obj) if post is not None else obj
        if ty.cls:
            _, _, cls = resolve_target(ty.cls)
            obj = object.__new__(cls)
            for k, v in fields.items():
                try:
                    object.__setattr__(obj, k, v)
                except Exception:
                    pass
            return obj
        return _types.SimpleNamespace(**fields)
    from .ty import Assoc
    if isinstance(ty, Assoc):
        return AssocDict((k, build_value(ty.valty, v, memo)) for k, v in (mv or []))
    if isinstance(ty, SeqOf):
        return [build_value(ty.elem, x, memo) for x in (mv or [])]
    if isinstance(ty, TupleOf):
        return tuple(build_value(t, x, memo) for t, x in zip(ty.elems, mv))
    if isinstance(ty, NodeTy):
        if mv is None:
            return None
        builder = getattr(ty, "build_native", None)
        if builder is not None:
            return builder(mv, memo)
        return FakeNode(**{k: v for k, v in mv.items() if not k.startswith("__")})
    return mv


def call_target(target, *args, **kwargs):
    mod, owner, obj = resolve_target(target)
    if isinstance(obj, staticmethod):
        return obj.__func__(*args, **kwargs)
    if isinstance(obj, classmethod):
        return obj.__func__(owner, *args, **kwargs)
    if isinstance(obj, property):
        return obj.fget(*args)
    return obj(*args, **kwargs)


def replay(c: api.Contract, inputs: dict, trusted_inputs=False):
    """inputs: param name -> model value. Returns dict with native outcome and which clauses fail.
    A contract marked no_selftest=True (process-level effects, file-system walks, whole-project linting) is NEVER run on
    solver models or generated inputs -- a generated path such as "/" would lint the real file system; only inputs the
    contract author supplied (witness_*(), `--replay` of a recorded file) are run (trusted_inputs=True)."""
    if c.opts.get("no_selftest") and not trusted_inputs:
        return {"target": c.target, "confirmed": False, "failed_clauses": [],
                "reason": "contract opts out of native runs on model / generated inputs (no_selftest)"}
    mod, owner, obj = resolve_target(c.target)
    fn = obj.__func__ if isinstance(obj, (staticmethod, classmethod)) else (obj.fget if isinstance(obj, property) else obj)
    sig = [p for p in inspect.signature(fn).parameters]
    args = {}
    for n in sig:
        if n in c.types:
            args[n] = build_value(c.types[n], inputs.get(n))
        elif n in ("self", "cls") and inspect.isclass(owner):
            args[n] = object.__new__(owner) if n == "self" else owner
        elif n in inputs:
            args[n] = inputs[n]
    if isinstance(obj, classmethod):
        args[sig[0]] = owner
    old = _types.SimpleNamespace(**{k: _safe_copy(v) for k, v in args.items()})
    out = {"target": c.target, "args": {k: _show(v) for k, v in args.items()}}
    dom = c.native("native_domain")
    if dom is not None:
        # NATIVE-ONLY typing side condition: which concrete Python values the (total) abstract domains stand for, e.g.
        # "class_node is an ast.ClassDef" -- the symbolic proof does not use it (it covers every abstract node)
        try:
            inside = bool(_call_spec(dom, dict(args, old=old)))
        except Exception:  # noqa
            inside = False
        if not inside:
            out["requires_holds"] = False
            out["confirmed"] = False
            out["reason"] = "input is outside the contract's native domain (abstract node with no concrete counterpart)"
            return out
    req = c.native("requires")
    if req is not None:
        try:
            ok = _call_spec(req, dict(args, old=old))
        except Exception as e:  # noqa
            ok = None
            out["requires_error"] = repr(e)
        out["requires_holds"] = ok
        if ok is None:
            out["confirmed"] = False
            out["reason"] = "precondition could not be evaluated natively on the model (over-abstraction)"
            return out
        if ok is False:
            out["confirmed"] = False
            out["reason"] = "model does not satisfy the precondition natively (over-abstraction)"
            return out
    # ghost output streams (pyvc/effects.py): one element per click.echo call, natively recorded by a patched echo
    streams = {"stdout": [], "stderr": []}
    old.__dict__.setdefault("stdout", [])
    old.__dict__.setdefault("stderr", [])
    restore_echo = _patch_echo(streams)
    try:
        result = fn(**args)
        out["result"] = _show(result)
        raised = None
    except BaseException as e:  # noqa
        raised = e
        out["raised"] = repr(e)
    finally:
        restore_echo()
    for sname, lines in streams.items():
        if lines:
            out[sname] = lines[:20]
        if sname not in args:
            args[sname] = lines
    failed = []
    if raised is not None:
        ok_cls = any(_exc_matches(raised, r) for r in c.raises)
        if not ok_cls:
            failed.append(f"undeclared exception {type(raised).__name__}")
        rw = c.native("raises_when")
        if ok_cls and rw is not None and not _call_spec(rw, dict(old.__dict__, old=old)):
            failed.append("raised outside raises_when")
        if ok_cls:
            code = raised.code if isinstance(raised, SystemExit) else (raised.args[0] if raised.args else None)
            if isinstance(raised, SystemExit) and code is None:
                code = 0
            cname = next((r for r in c.raises if _exc_matches(raised, r)), type(raised).__name__)
            for name in sorted(n for n in c.methods if n.startswith("on_raise")):
                try:
                    ok = _call_spec(c.native(name), dict(args, old=old, exc=code, exc_class=cname))
                except Exception as e:  # noqa
                    ok = None
                    out.setdefault("spec_errors", {})[name] = repr(e)
                if ok is False:
                    failed.append(name)
    else:
        rw = c.native("raises_when")
        if rw is not None and _call_spec(rw, dict(old.__dict__, old=old)):
            failed.append("returned although raises_when holds")
        vfn = c.native("value")
        if vfn is not None:
            try:
                if not (result == _call_spec_raw(vfn, dict(args, old=old, result=result))):
                    failed.append("value")
            except Exception as e:  # noqa
                out.setdefault("spec_errors", {})["value"] = repr(e)
        for name in c.ensures_names():
            try:
                ok = _call_spec(c.native(name), dict(args, old=old, result=result))
            except Exception as e:  # noqa
                ok = None
                out.setdefault("spec_errors", {})[name] = repr(e)
            if ok is False:
                failed.append(name)
    out["failed_clauses"] = failed
    out["confirmed"] = bool(failed)
    return out


def _patch_echo(streams):
    """Record click.echo(message, err=...) calls instead of printing (the native rendering of the ghost streams)."""
    try:
        import click
    except Exception:  # noqa
        return lambda: None
    orig = click.echo

    def echo(message=None, file=None, nl=True, err=False, color=None):
        streams["stderr" if err else "stdout"].append("" if message is None else str(message))

    click.echo = echo

    def restore():
        click.echo = orig
    return restore


def _exc_matches(e, name):
    return any(k.__name__ == name for k in type(e).__mro__)


def _call_spec(fn, values):
    names = list(inspect.signature(fn).parameters)
    return bool(fn(*[values[n] for n in names]))


def _call_spec_raw(fn, values):
    names = list(inspect.signature(fn).parameters)
    return fn(*[values[n] for n in names])


def _seed_nodes(v, memo, depth=0):
    """Parse-tree nodes are immutable inputs with IDENTITY semantics: the `old` snapshot must refer to the very same
    node objects (a deep copy would make `old.xs == xs` false for lists of nodes)."""
    import ast as _ast
    if depth > 8:
        return
    if isinstance(v, (FakeNode, _ast.AST)):
        memo[id(v)] = v
        return
    if isinstance(v, (list, tuple, set, frozenset)):
        for x in v:
            _seed_nodes(x, memo, depth + 1)
    elif isinstance(v, dict):
        for x in v.values():
            _seed_nodes(x, memo, depth + 1)
    elif hasattr(v, "__dict__") and not isinstance(v, type):
        for x in list(vars(v).values()):
            _seed_nodes(x, memo, depth + 1)


def _safe_copy(v):
    try:
        memo = {}
        _seed_nodes(v, memo)
        return copy.deepcopy(v, memo)
    except Exception:
        return v


def _show(v, depth=0):
    if depth > 4:
        return "<deep>"
    if isinstance(v, (int, str, bool, float, type(None))):
        return v
    if isinstance(v, (list, tuple)):
        return [_show(x, depth + 1) for x in v[:20]]
    if isinstance(v, dict):
        return {str(k): _show(x, depth + 1) for k, x in list(v.items())[:20]}
    if hasattr(v, "__dict__"):
        return {"__class__": type(v).__name__, **{k: _show(x, depth + 1) for k, x in list(vars(v).items())[:20] if not k.startswith("__")}}
    return repr(v)


def replay_lemma(lem, inputs: dict):
    """Run the lemma natively (call() runs the real functions); confirmed iff it evaluates to False."""
    args = {}
    for n in inspect.signature(lem.fn).parameters:
        args[n] = build_value(lem.types[n], inputs.get(n)) if n in lem.types else inputs.get(n)
    out = {"lemma": lem.name, "args": {k: _show(v) for k, v in args.items()}}
    try:
        r = lem.fn(**args)
        out["result"] = bool(r)
        out["confirmed"] = (r is False) or (not r)
    except BaseException as e:  # noqa
        out["raised"] = repr(e)[:300]
        out["confirmed"] = False
    return out
