"""pyvc.ops -- pure operations on symbolic values: truthiness, equality, merge, constant folding."""
from __future__ import annotations

import z3

from .ty import (Any, Bool, Dict, Int, NodeTy, Opt, Rec, SeqOf, Str, TupleOf, Unsupported, V, VAny, VBool, VClass,
                 VConst, VDict, VExc, VFunc, VInt, VList, VNode, VNone, VOpaque, VOpt, VRec, VStr, VTuple, ValSort,
                 EmptyDict, lift, to_val)

NOCONST = object()


def simp(t):
    return z3.simplify(t)


def concrete_of(v: V):
    """Python value of v when it is a constant, else NOCONST."""
    if isinstance(v, VConst):
        return v.py
    if isinstance(v, VNone):
        return None
    if isinstance(v, (VInt, VBool, VStr)):
        t = simp(v.t)
        if isinstance(v, VInt) and z3.is_int_value(t):
            return t.as_long()
        if isinstance(v, VBool) and (z3.is_true(t) or z3.is_false(t)):
            return z3.is_true(t)
        if isinstance(v, VStr) and z3.is_string_value(t):
            s = t.as_string()
            s = _unescape(s)
            return s.encode("latin-1") if v.is_bytes else s
        return NOCONST
    if isinstance(v, (VTuple,)):
        xs = [concrete_of(x) for x in v.items]
        return NOCONST if any(x is NOCONST for x in xs) else tuple(xs)
    if isinstance(v, VList) and v.items is not None:
        xs = [concrete_of(x) for x in v.items]
        return NOCONST if any(x is NOCONST for x in xs) else list(xs)
    return NOCONST


def _unescape(s):
    # z3 prints non-printable / non-ascii as \u{..}
    import re
    return re.sub(r"\\u\{([0-9a-fA-F]+)\}", lambda m: chr(int(m.group(1), 16)), s)


def truthy(v: V):
    if isinstance(v, VBool):
        return v.t
    if isinstance(v, VInt):
        return v.t != 0
    if isinstance(v, VStr):
        return z3.Length(v.t) > 0
    if isinstance(v, VNone):
        return z3.BoolVal(False)
    if isinstance(v, VOpt):
        return z3.And(z3.Not(v.isnone), truthy(v.val))
    if isinstance(v, VNode):
        return v.t != v.ty.null
    if isinstance(v, VList):
        if v.items is not None:
            return z3.BoolVal(len(v.items) > 0)
        return z3.Length(v.seq) > 0
    if isinstance(v, VTuple):
        return z3.BoolVal(len(v.items) > 0)
    if isinstance(v, VRec):
        if v.ty.as_dict:
            return z3.BoolVal(len(v.fields) > 0)
        return z3.BoolVal(True)
    if isinstance(v, (VOpaque, VFunc, VClass, VExc)):
        return z3.BoolVal(True)
    if isinstance(v, VDict):
        return v.t != EmptyDict
    if isinstance(v, VAny):
        t = v.t
        return z3.And(
            t != ValSort.NoneV, t != ValSort.Absent,
            z3.Implies(ValSort.is_I(t), ValSort.iv(t) != 0),
            z3.Implies(ValSort.is_B(t), ValSort.bv(t)),
            z3.Implies(ValSort.is_S(t), z3.Length(ValSort.sv(t)) > 0),
            z3.Implies(ValSort.is_LS(t), z3.Length(ValSort.lsv(t)) > 0),
            z3.Implies(ValSort.is_LI(t), z3.Length(ValSort.liv(t)) > 0),
            z3.Implies(ValSort.is_LV(t), z3.Length(ValSort.lvv(t)) > 0),
            z3.Implies(ValSort.is_D(t), ValSort.dv(t) != EmptyDict))
    if isinstance(v, VConst):
        return z3.BoolVal(bool(v.py))
    raise Unsupported(f"truthiness of {v}")


def _scalar_term(v):
    if isinstance(v, (VInt, VBool, VStr, VNode, VOpaque, VAny, VDict)):
        return v.t
    return None


def eq(a: V, b: V):
    """Python `a == b` as a z3 Bool."""
    from .ty import VSet
    if isinstance(a, VSet) or isinstance(b, VSet):
        raise Unsupported("== on a symbolic set (only membership is modelled; use same_members in specs)")
    if isinstance(a, VConst) and not isinstance(b, VConst):
        a = _lift_const(a)
    if isinstance(b, VConst) and not isinstance(a, VConst):
        b = _lift_const(b)
    if isinstance(a, VConst) and isinstance(b, VConst):
        return z3.BoolVal(a.py == b.py)
    if isinstance(a, VNone) and isinstance(b, VNone):
        return z3.BoolVal(True)
    # packed comparison: one term equality instead of a component-wise expansion
    for x, y in ((a, b), (b, a)):
        pk = getattr(x, "packed", None)
        if pk is None:
            continue
        try:
            if isinstance(x, VTuple) and isinstance(y, VTuple) and len(x.items) == len(y.items):
                return pk == x.pty.pack(y)
            if isinstance(x, VOpt) and isinstance(y, (VOpt, VNone)):
                return pk == Opt(x.ty.inner).pack(y)
        except Unsupported:
            pass
    if isinstance(a, VOpt) or isinstance(b, VOpt):
        if isinstance(b, VOpt) and not isinstance(a, VOpt):
            a, b = b, a
        if isinstance(b, VNone):
            return a.isnone
        if isinstance(b, VAny):
            return to_val(a) == b.t  # a dynamic value may itself be None
        if isinstance(b, VOpt):
            return z3.Or(z3.And(a.isnone, b.isnone), z3.And(z3.Not(a.isnone), z3.Not(b.isnone), eq(a.val, b.val)))
        return z3.And(z3.Not(a.isnone), eq(a.val, b))
    if isinstance(a, VNode) or isinstance(b, VNode):
        if isinstance(b, VNode) and not isinstance(a, VNode):
            a, b = b, a
        if isinstance(b, VNone):
            return a.t == a.ty.null
        if isinstance(b, VNode) and a.ty is b.ty:
            return a.t == b.t
        return z3.BoolVal(False)
    if isinstance(a, VNone) or isinstance(b, VNone):
        other = b if isinstance(a, VNone) else a
        if isinstance(other, VAny):
            return other.t == ValSort.NoneV
        return z3.BoolVal(False)
    if isinstance(a, VAny) or isinstance(b, VAny):
        for x, y in ((a, b), (b, a)):
            # Python: True == 1 and False == 0 -- a dynamic value compared with a typed number compares numerically
            if isinstance(x, VAny) and isinstance(y, VInt):
                t = x.t
                return z3.Or(t == ValSort.I(y.t),
                             z3.And(ValSort.is_B(t), z3.If(ValSort.bv(t), z3.IntVal(1), z3.IntVal(0)) == y.t))
            if isinstance(x, VAny) and isinstance(y, VBool):
                t = x.t
                return z3.Or(t == ValSort.B(y.t),
                             z3.And(ValSort.is_I(t), ValSort.iv(t) == z3.If(y.t, z3.IntVal(1), z3.IntVal(0))))
        return to_val(a) == to_val(b)
    if isinstance(a, VBool) and isinstance(b, VInt):
        a = VInt(z3.If(a.t, z3.IntVal(1), z3.IntVal(0)))
    if isinstance(b, VBool) and isinstance(a, VInt):
        b = VInt(z3.If(b.t, z3.IntVal(1), z3.IntVal(0)))
    if type(a) is type(b) and isinstance(a, (VInt, VBool, VOpaque, VDict)):
        return a.t == b.t
    if isinstance(a, VStr) and isinstance(b, VStr):
        if a.is_bytes != b.is_bytes:
            return z3.BoolVal(False)
        return a.t == b.t
    if isinstance(a, (VList, VTuple)) and isinstance(b, (VList, VTuple)):
        if isinstance(a, VList) != isinstance(b, VList):
            return z3.BoolVal(False)  # list never equals tuple
        ai = a.items if not isinstance(a, VList) or a.items is not None else None
        bi = b.items if not isinstance(b, VList) or b.items is not None else None
        if ai is not None and bi is not None:
            if len(ai) != len(bi):
                return z3.BoolVal(False)
            return z3.And([eq(x, y) for x, y in zip(ai, bi)]) if ai else z3.BoolVal(True)
        elem = a.elem or b.elem
        if elem is None:
            raise Unsupported("comparison of lists of unknown element type")
        ta = SeqOf(elem).pack(a)
        tb = SeqOf(elem).pack(b)
        return ta == tb
    for x, y in ((a, b), (b, a)):
        if isinstance(x, VDict) and isinstance(y, VConst) and isinstance(y.py, dict):
            return x.t == ValSort.dv(to_val(y))  # symbolic dict == constant dict (module-level table)
        if isinstance(x, VDict) and isinstance(y, VRec) and y.ty.as_dict and not getattr(y.ty, "optkeys", False):
            from .ty import recdict_term
            return x.t == recdict_term(y)  # symbolic dict == dict display with constant keys
    if isinstance(a, VRec) and isinstance(b, VRec):
        if set(a.fields) != set(b.fields):
            return z3.BoolVal(False)
        return z3.And([eq(a.fields[k], b.fields[k]) for k in a.fields]) if a.fields else z3.BoolVal(True)
    if isinstance(a, VExc) and isinstance(b, VExc):
        return z3.BoolVal(a is b)
    if isinstance(a, VClass) and isinstance(b, VClass):
        return z3.BoolVal(a is b or getattr(a.info, "key", a.info) == getattr(b.info, "key", b.info))
    # different kinds of values are never equal in Python (int vs str, ...)
    return z3.BoolVal(False)


def _lift_const(v: VConst):
    return lift(v.py) if isinstance(v.py, (int, str, bool, type(None), tuple, list, bytes)) else v


def merge(cond, a: V, b: V) -> V:
    """ite(cond, a, b) on values; raises Unsupported when the two sides have no common representation."""
    c = simp(cond)
    if z3.is_true(c):
        return a
    if z3.is_false(c):
        return b
    if isinstance(a, VConst):
        a = _lift_const(a)
    if isinstance(b, VConst):
        b = _lift_const(b)
    if isinstance(a, VNone) and isinstance(b, VNone):
        return a
    # packed merge: one ite over a single datatype term keeps recursive calls unshared-but-single
    for x, y in ((a, b), (b, a)):
        if isinstance(x, VTuple) and getattr(x, "packed", None) is not None and isinstance(y, VTuple):
            try:
                ta, tb = x.pty.pack(a), x.pty.pack(b)
                return x.pty.wrap(z3.If(cond, ta, tb))
            except Unsupported:
                break
        if isinstance(x, VOpt) and getattr(x, "packed", None) is not None and not isinstance(y, (VNode,)):
            try:
                oty = Opt(x.ty.inner)
                return oty.wrap(z3.If(cond, oty.pack(a), oty.pack(b)))
            except (Unsupported, z3.Z3Exception):
                break
    if isinstance(a, VNode) or isinstance(b, VNode):
        nty = a.ty if isinstance(a, VNode) else b.ty
        return VNode(z3.If(cond, nty.pack(a), nty.pack(b)), nty)
    if isinstance(a, (VNone, VOpt)) or isinstance(b, (VNone, VOpt)):
        def parts(x, other):
            if isinstance(x, VNone):
                return z3.BoolVal(True), None
            if isinstance(x, VOpt):
                return x.isnone, x.val
            return z3.BoolVal(False), x
        an, av = parts(a, b)
        bn, bv = parts(b, a)
        if av is None and bv is None:
            return VNone()
        if av is None:
            av = bv
        if bv is None:
            bv = av
        val = merge(cond, av, bv)
        return VOpt(z3.If(cond, an, bn), val, val.ty)
    if isinstance(a, VBool) and isinstance(b, VBool):
        return VBool(z3.If(cond, a.t, b.t))
    if isinstance(a, (VInt, VBool)) and isinstance(b, (VInt, VBool)):
        from .ty import coerce
        return VInt(z3.If(cond, coerce(a, Int).t, coerce(b, Int).t))
    if isinstance(a, VStr) and isinstance(b, VStr):
        return VStr(z3.If(cond, a.t, b.t), is_bytes=a.is_bytes)
    if isinstance(a, VOpaque) and isinstance(b, VOpaque) and a.ty is b.ty:
        return VOpaque(z3.If(cond, a.t, b.t), a.ty)
    if isinstance(a, VDict) and isinstance(b, VDict):
        return VDict(z3.If(cond, a.t, b.t))
    if (isinstance(a, VDict) and isinstance(b, VRec) and b.ty.as_dict) or (isinstance(b, VDict) and isinstance(a, VRec) and a.ty.as_dict):
        # a symbolic dict and a dict display with constant keys (e.g. `dict(m) if ... else {}`): both as Array terms
        from .ty import recdict_term
        ta = a.t if isinstance(a, VDict) else recdict_term(a)
        tb = b.t if isinstance(b, VDict) else recdict_term(b)
        return VDict(z3.If(cond, ta, tb))
    if isinstance(a, VAny) or isinstance(b, VAny):
        return VAny(z3.If(cond, to_val(a), to_val(b)))
    if isinstance(a, VTuple) and isinstance(b, VTuple) and len(a.items) == len(b.items):
        return VTuple([merge(cond, x, y) for x, y in zip(a.items, b.items)])
    if isinstance(a, VList) and isinstance(b, VList):
        if a.items is not None and b.items is not None and len(a.items) == len(b.items):
            try:
                return VList(a.elem or b.elem, items=[merge(cond, x, y) for x, y in zip(a.items, b.items)])
            except Unsupported:
                pass
        elem = a.elem or b.elem
        if elem is None:
            if a.items == [] and b.items == []:
                return a
            raise Unsupported("merge of lists of unknown element type")
        return VList(elem, seq=z3.If(cond, SeqOf(elem).pack(a), SeqOf(elem).pack(b)))
    if isinstance(a, VRec) and isinstance(b, VRec) and set(a.fields) == set(b.fields):
        return VRec(a.ty, {k: merge(cond, a.fields[k], b.fields[k]) for k in a.fields})
    if isinstance(a, (VInt, VBool, VStr)) and isinstance(b, (VInt, VBool, VStr)):
        return VAny(z3.If(cond, to_val(a), to_val(b)))
    raise Unsupported(f"cannot merge {a} and {b}")


def int_to_str(t):
    return z3.If(t >= 0, z3.IntToStr(t), z3.Concat(z3.StringVal("-"), z3.IntToStr(-t)))
