"""pyvc.purify -- work around a z3 soundness bug (5.1.0 and 4.8.12): with a Seq-sorted `ite` as an argument of a
recursive-function application z3 answers `unsat` on satisfiable queries (minimal repro in DESIGN.md 8). Every
non-string Seq-sorted ite in the asserted formulas is replaced by a fresh constant k with (c => k = a), (not c => k = b),
which is equisatisfiable and keeps the solvers on the safe side (they answer `unknown` instead)."""
from __future__ import annotations

import itertools

import z3

_n = itertools.count()


def _is_seq_nonstring(sort):
    return sort.kind() == z3.Z3_SEQ_SORT and not sort.is_string()


def purify(assertions):
    cache = {}
    extra = []

    def walk(e):
        key = e.get_id()
        if key in cache:
            return cache[key]
        if z3.is_quantifier(e) or not z3.is_app(e) or e.num_args() == 0:
            cache[key] = e
            return e
        kids = [walk(k) for k in e.children()]
        if z3.is_app_of(e, z3.Z3_OP_ITE) and _is_seq_nonstring(e.sort()):
            c, a, b = kids
            k = z3.Const(f"seqite!{next(_n)}", e.sort())
            extra.append(z3.Implies(c, k == a))
            extra.append(z3.Implies(z3.Not(c), k == b))
            cache[key] = k
            return k
        changed = any(not x.eq(y) for x, y in zip(kids, e.children()))
        r = e.decl()(*kids) if changed else e
        cache[key] = r
        return r

    out = [walk(a) for a in assertions]
    return out + extra
