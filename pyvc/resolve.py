"""pyvc.resolve -- mechanical extraction of functions, classes and constant tables from the
*current* source files of the repository (re-read on every run; nothing is cached on disk)."""
from __future__ import annotations

import ast
import hashlib
import os
from dataclasses import dataclass, field

from .ty import Unsupported


@dataclass
class FuncInfo:
    key: str  # "src/pkg/mod.py::Class.method"
    module: "ModuleInfo"
    node: ast.FunctionDef
    cls: "ClassInfo | None" = None
    kind: str = "function"  # function | method | staticmethod | classmethod | property | lambda | nested

    @property
    def name(self):
        return self.node.name if hasattr(self.node, "name") else "<lambda>"

    def sha(self):
        return hashlib.sha256(ast.dump(strip_docstrings(self.node)).encode()).hexdigest()


@dataclass
class ClassInfo:
    key: str
    name: str
    module: "ModuleInfo"
    node: ast.ClassDef
    methods: dict = field(default_factory=dict)
    consts: dict = field(default_factory=dict)  # class-level simple assignments: name -> ast expr
    bases: list = field(default_factory=list)  # ast exprs
    is_dataclass: bool = False
    fields: list = field(default_factory=list)  # dataclass fields: (name, annotation ast, default ast|None)

    def mro(self, repo):
        out, seen = [], set()
        todo = [self]
        while todo:
            c = todo.pop(0)
            if c.key in seen:
                continue
            seen.add(c.key)
            out.append(c)
            for b in c.bases:
                bi = c.module.resolve_class(b, repo)
                if bi is not None:
                    todo.append(bi)
        return out

    def find_method(self, name, repo):
        for c in self.mro(repo):
            if name in c.methods:
                return c.methods[name]
        return None

    def find_const(self, name, repo):
        for c in self.mro(repo):
            if name in c.consts:
                return c, c.consts[name]
        return None


@dataclass
class ModuleInfo:
    relpath: str  # "src/linters/x/y.py"
    tree: ast.Module
    source: str
    functions: dict = field(default_factory=dict)
    classes: dict = field(default_factory=dict)
    consts: dict = field(default_factory=dict)  # name -> ast expr
    imports: dict = field(default_factory=dict)  # local name -> (module dotted, attr|None)

    def resolve_class(self, expr, repo):
        if isinstance(expr, ast.Name):
            if expr.id in self.classes:
                return self.classes[expr.id]
            if expr.id in self.imports:
                mod, attr = self.imports[expr.id]
                m = repo.module_by_dotted(mod)
                if m is not None and attr in m.classes:
                    return m.classes[attr]
                if m is not None and attr in m.imports:  # re-export
                    return m.resolve_class(ast.Name(id=attr), repo)
        return None


def strip_docstrings(node):
    node = ast.parse(ast.unparse(node)) if False else node
    for n in ast.walk(node):
        if isinstance(n, (ast.FunctionDef, ast.AsyncFunctionDef, ast.ClassDef, ast.Module)):
            if n.body and isinstance(n.body[0], ast.Expr) and isinstance(n.body[0].value, ast.Constant) \
                    and isinstance(n.body[0].value.value, str):
                n.body = n.body[1:] or [ast.Pass()]
    return node


def _decorator_names(node):
    out = []
    for d in node.decorator_list:
        if isinstance(d, ast.Name):
            out.append(d.id)
        elif isinstance(d, ast.Attribute):
            out.append(d.attr)
        elif isinstance(d, ast.Call):
            f = d.func
            out.append(f.id if isinstance(f, ast.Name) else getattr(f, "attr", "?"))
    return out


class Repo:
    """The program under verification: a directory whose modules are parsed lazily."""

    def __init__(self, root):
        self.root = os.path.abspath(root)
        self._mods: dict[str, ModuleInfo | None] = {}

    def module(self, relpath) -> ModuleInfo:
        if relpath not in self._mods:
            path = os.path.join(self.root, relpath)
            if not os.path.isfile(path):
                self._mods[relpath] = None
            else:
                with open(path, encoding="utf-8") as fh:
                    src = fh.read()
                self._mods[relpath] = self._index(relpath, src)
        m = self._mods[relpath]
        if m is None:
            raise Unsupported(f"module {relpath} not found")
        return m

    def module_by_dotted(self, dotted):
        rel = dotted.replace(".", "/")
        for cand in (rel + ".py", rel + "/__init__.py"):
            if os.path.isfile(os.path.join(self.root, cand)):
                return self.module(cand)
        return None

    def _index(self, relpath, src):
        tree = strip_docstrings(ast.parse(src))
        m = ModuleInfo(relpath, tree, src)
        pkg = relpath[:-3].replace("/", ".")
        if pkg.endswith(".__init__"):
            pkg_parts = pkg.split(".")[:-1]
        else:
            pkg_parts = pkg.split(".")[:-1]
        body = list(tree.body)
        # flatten `if TYPE_CHECKING:` and try/except import blocks
        flat = []
        for st in body:
            if isinstance(st, ast.If):
                flat.extend(st.body)
            elif isinstance(st, ast.Try):
                flat.extend(st.body)
            else:
                flat.append(st)
        for st in flat:
            if isinstance(st, (ast.FunctionDef, ast.AsyncFunctionDef)):
                m.functions[st.name] = FuncInfo(f"{relpath}::{st.name}", m, st)
            elif isinstance(st, ast.ClassDef):
                m.classes[st.name] = self._index_class(m, st)
            elif isinstance(st, ast.Assign) and len(st.targets) == 1 and isinstance(st.targets[0], ast.Name):
                m.consts[st.targets[0].id] = st.value
            elif isinstance(st, ast.AnnAssign) and isinstance(st.target, ast.Name) and st.value is not None:
                m.consts[st.target.id] = st.value
            elif isinstance(st, ast.Import):
                for a in st.names:
                    m.imports[a.asname or a.name.split(".")[0]] = (a.name if a.asname else a.name.split(".")[0], None)
            elif isinstance(st, ast.ImportFrom):
                if st.level:
                    base = pkg_parts[: len(pkg_parts) - (st.level - 1)]
                    mod = ".".join(base + ([st.module] if st.module else []))
                else:
                    mod = st.module
                for a in st.names:
                    m.imports[a.asname or a.name] = (mod, a.name)
        return m

    def _index_class(self, m, node):
        ci = ClassInfo(f"{m.relpath}::{node.name}", node.name, m, node, bases=list(node.bases))
        ci.is_dataclass = "dataclass" in _decorator_names(node)
        for st in node.body:
            if isinstance(st, (ast.FunctionDef, ast.AsyncFunctionDef)):
                decs = _decorator_names(st)
                kind = "method"
                if "staticmethod" in decs:
                    kind = "staticmethod"
                elif "classmethod" in decs:
                    kind = "classmethod"
                elif "property" in decs:
                    kind = "property"
                ci.methods[st.name] = FuncInfo(f"{m.relpath}::{node.name}.{st.name}", m, st, cls=ci, kind=kind)
            elif isinstance(st, ast.Assign) and len(st.targets) == 1 and isinstance(st.targets[0], ast.Name):
                ci.consts[st.targets[0].id] = st.value
            elif isinstance(st, ast.AnnAssign) and isinstance(st.target, ast.Name):
                ci.fields.append((st.target.id, st.annotation, st.value))
                if st.value is not None:
                    ci.consts[st.target.id] = st.value
        return ci

    def lookup(self, key) -> FuncInfo:
        """key = 'relpath::qualname' (qualname = func | Class.method | func.<nested>). A contract target may carry a
        view tag, 'relpath::qualname~tag': an ADDITIONAL contract on the same function, verified against the body as
        its own unit; call sites always apply the untagged contract (REGISTRY is keyed by the full target string)."""
        key = key.split("~")[0]
        relpath, qual = key.split("::")
        m = self.module(relpath)
        parts = qual.split(".")
        if parts[0] in m.functions:
            fi = m.functions[parts[0]]
            for p in parts[1:]:
                inner = [n for n in ast.walk(fi.node) if isinstance(n, ast.FunctionDef) and n.name == p and n is not fi.node]
                if not inner:
                    raise Unsupported(f"{key}: nested function {p} not found")
                fi = FuncInfo(key, m, inner[0], kind="nested")
            return fi
        if parts[0] in m.classes and len(parts) >= 2:
            ci = m.classes[parts[0]]
            if parts[1] in ci.methods:
                fi = ci.methods[parts[1]]
                for p in parts[2:]:  # closure defined inside a method: 'Class.method.inner'
                    inner = [n for n in ast.walk(fi.node) if isinstance(n, ast.FunctionDef) and n.name == p and n is not fi.node]
                    if not inner:
                        raise Unsupported(f"{key}: nested function {p} not found")
                    fi = FuncInfo(key, m, inner[0], kind="nested")
                return fi
        raise Unsupported(f"{key}: not found in current source")

    def lookup_class(self, key) -> ClassInfo:
        relpath, qual = key.split("::")
        m = self.module(relpath)
        if qual in m.classes:
            return m.classes[qual]
        raise Unsupported(f"{key}: class not found in current source")
