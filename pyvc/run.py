"""pyvc.run -- one symbolic run (one path), decision trace, obligations."""
from __future__ import annotations

from dataclasses import dataclass, field

import z3

from .ty import V, VExc


class Signal(Exception):
    pass


class ReturnSig(Signal):
    def __init__(self, value):
        self.value = value


class RaiseSig(Signal):
    def __init__(self, exc: VExc):
        self.exc = exc


class BreakSig(Signal):
    pass


class ContinueSig(Signal):
    pass


class Infeasible(Signal):
    """The current path condition is unsatisfiable / the run was cut (after a loop invariant check)."""


@dataclass
class Obligation:
    name: str
    kind: str  # post | pre | safe | loop.init | loop.preserve | loop.variant | raises | frame | lemma | cover
    pc: list
    goal: object  # z3 Bool
    func: str
    lineno: int = 0
    note: str = ""
    carries_property: bool = True
    verdict: str = ""
    solver: str = ""
    ms: float = 0.0
    model: object = None
    inputs: dict = field(default_factory=dict)  # name -> V : symbolic inputs of the run, for counter-model extraction


class Run:
    def __init__(self, prefix):
        self.trace = list(prefix)  # list of [choice, pending_other]
        self.replay_len = len(prefix)
        self.pos = 0
        self.pc: list = []
        self.ctx: list = []  # conditions of the enclosing short-circuit / conditional-expression operands
        self.effects: list = []
        self.notes: list = []

    def emitting(self):
        return self.pos >= self.replay_len


_feas_solver_timeout_ms = 2000


def guarded_check(assertions, timeout_ms, on_sat=None, grace=1.5, on_unknown=None):
    """s.check() in a forked child with a HARD wall-clock limit (z3 5.1's sequence solver can ignore its own
    timeout). Returns (verdict, payload): verdict in sat/unsat/unknown/hang; payload = on_sat(model) JSON for sat."""
    import json
    import os
    import select
    import signal
    r, w = os.pipe()
    pid = os.fork()
    if pid == 0:
        try:
            os.close(r)
            from .purify import purify
            s = z3.Solver()
            s.set("timeout", int(timeout_ms))
            for c in purify(assertions):
                s.add(c)
            res = s.check()
            out = {"v": str(res)}
            if res == z3.sat and on_sat is not None:
                try:
                    out["p"] = on_sat(s.model())
                except BaseException as e:  # noqa
                    out["p"] = None
                    out["err"] = repr(e)[:300]
            elif res == z3.unknown:
                out["why"] = s.reason_unknown()
                if on_unknown is not None:
                    # incomplete theory: the solver's CANDIDATE model proves nothing by itself; the caller may confirm
                    # it by running the real function natively (a concrete failing execution is a refutation)
                    try:
                        s2 = z3.SimpleSolver()  # the tactic-based default solver keeps no model on `unknown`
                        s2.set("timeout", int(min(timeout_ms, 2000)))
                        for c in assertions:
                            s2.add(c)
                        if s2.check() != z3.unsat:
                            out["cand"] = on_unknown(s2.model())
                    except BaseException:  # noqa
                        out["cand"] = None
            data = json.dumps(out, default=str).encode()
            os.write(w, len(data).to_bytes(8, "big") + data)
        except BaseException:  # noqa
            pass
        finally:
            os._exit(0)
    os.close(w)
    deadline = timeout_ms / 1000.0 + grace
    buf = b""
    import time as _t
    t0 = _t.time()
    verdict, payload = "hang", None
    try:
        while True:
            left = deadline - (_t.time() - t0)
            if left <= 0:
                break
            rd, _, _ = select.select([r], [], [], left)
            if not rd:
                break
            chunk = os.read(r, 1 << 20)
            if not chunk:
                break
            buf += chunk
            if len(buf) >= 8 and len(buf) >= 8 + int.from_bytes(buf[:8], "big"):
                break
        if len(buf) >= 8 and len(buf) >= 8 + int.from_bytes(buf[:8], "big"):
            out = json.loads(buf[8:8 + int.from_bytes(buf[:8], "big")].decode())
            verdict, payload = out["v"], out
    finally:
        os.close(r)
        try:
            os.kill(pid, signal.SIGKILL)
        except ProcessLookupError:
            pass
        try:
            os.waitpid(pid, 0)
        except ChildProcessError:
            pass
    return verdict, payload


FEAS_STATS = {"api": 0, "cli": 0, "unknown": 0}


def feasible(pc, extra):
    """Path pruning only: `unknown` counts as feasible. z3 5.1 first (0.4 s hard), then /usr/bin/z3 4.8.12."""
    cs = list(pc) + [extra]
    v, _ = guarded_check(cs, 400, grace=0.2)
    FEAS_STATS["api"] += 1
    if v in ("sat", "unsat"):
        return v != "unsat"
    FEAS_STATS["cli"] += 1
    try:
        from .purify import purify
        s = z3.Solver()
        for c in purify(cs):
            s.add(c)
        from .verify import _z3_old
        v = _z3_old(s.to_smt2(), 2000)
    except Exception:  # noqa
        v = "unknown"
    if v not in ("sat", "unsat"):
        FEAS_STATS["unknown"] += 1
    return v != "unsat"


def is_true(t):
    return z3.is_true(t)


def is_false(t):
    return z3.is_false(t)
