"""pyvc.run -- one symbolic run (one path), decision trace, obligations."""
from __future__ import annotations

from dataclasses import dataclass, field

import z3

from .ty import V, VExc


class Signal(Exception):
    pass


class ReturnSig(Signal):
    def __init__(self, value):
        self.value = value


class RaiseSig(Signal):
    def __init__(self, exc: VExc):
        self.exc = exc


class BreakSig(Signal):
    pass


class ContinueSig(Signal):
    pass


class Infeasible(Signal):
    """The current path condition is unsatisfiable / the run was cut (after a loop invariant check)."""


@dataclass
class Obligation:
    name: str
    kind: str  # post | pre | safe | loop.init | loop.preserve | loop.variant | raises | frame | lemma | cover
    pc: list
    goal: object  # z3 Bool
    func: str
    lineno: int = 0
    note: str = ""
    carries_property: bool = True
    verdict: str = ""
    solver: str = ""
    ms: float = 0.0
    model: object = None
    inputs: dict = field(default_factory=dict)  # name -> V : symbolic inputs of the run, for counter-model extraction


class Run:
    def __init__(self, prefix):
        self.trace = list(prefix)  # list of [choice, pending_other]
        self.replay_len = len(prefix)
        self.pos = 0
        self.pc: list = []
        self.ctx: list = []  # conditions of the enclosing short-circuit / conditional-expression operands
        self.effects: list = []
        self.notes: list = []

    def emitting(self):
        return self.pos >= self.replay_len


_feas_solver_timeout_ms = 2000


def feasible(pc, extra):
    s = z3.Solver()
    s.set("timeout", _feas_solver_timeout_ms)
    for c in pc:
        s.add(c)
    s.add(extra)
    r = s.check()
    return r != z3.unsat


def is_true(t):
    return z3.is_true(t)


def is_false(t):
    return z3.is_false(t)
