"""pyvc.selftest -- CPython cross-check of proved contracts (thorough tier).

For every contract that is claimed proved, random concrete inputs are drawn from the declared types, filtered by the
native `requires`, the REAL function is run under CPython and the same contract text is evaluated natively. A proved
clause that fails natively means the engine's encoding (or the abstract domain's native rendering) is wrong: the run
reports ENGINE-DISAGREEMENT and exits 3 -- it is never reported as a violation of the property."""
from __future__ import annotations

import ast
import random

from . import api, native
from .ty import (Any, Assoc, Bool, Bytes, Dict, Int, NodeTy, NoneT, Opaque, Opt, Rec, SeqOf, Str, TupleOf, Ty)


class CannotGenerate(Exception):
    pass


def harvest_constants(repo, c: api.Contract):
    """String / int literals of the function under proof and of its contract file: the interesting values."""
    strs, ints = {"", "a", "A", "b", "/", "x/y", " ", "#", "_x", "test"}, {-1, 0, 1, 2, 3, 7, 8, 200, 201}
    try:
        finfo = repo.lookup(c.target)
        trees = [finfo.node]
        mod_tree = finfo.module.tree
        trees.append(mod_tree)
    except Exception:  # noqa
        trees = []
    trees.append(c.node)
    for t in trees:
        for n in ast.walk(t):
            if isinstance(n, ast.Constant):
                if isinstance(n.value, str) and len(n.value) <= 40:
                    strs.add(n.value)
                elif isinstance(n.value, int) and not isinstance(n.value, bool) and abs(n.value) < 10**6:
                    ints.update({n.value - 1, n.value, n.value + 1})
    return sorted(strs), sorted(ints)


def harvest_node_kinds(repo, c: api.Contract):
    """Strings the module of the function under proof compares with a `.type` attribute (parse-tree node kinds):
    generated trees draw their node types from these (plus one filler), which makes small interesting trees likely."""
    kinds = set()
    try:
        trees = [repo.lookup(c.target).module.tree]
    except Exception:  # noqa
        return []
    try:
        # the contract file names the kinds the SPEC distinguishes (a mutated function may have lost one of them)
        import inspect
        import sys
        trees.append(ast.parse(inspect.getsource(sys.modules[c.module])))
    except Exception:  # noqa
        pass
    for tree in trees:
        consts = {t.id: st.value for st in tree.body if isinstance(st, ast.Assign) and isinstance(st.value, ast.Tuple)
                  for t in st.targets if isinstance(t, ast.Name)}
        for n in ast.walk(tree):
            if isinstance(n, ast.Compare) and any(isinstance(x, ast.Attribute) and x.attr == "type" for x in [n.left] + n.comparators):
                for x in [n.left] + n.comparators:
                    if isinstance(x, ast.Name) and x.id in consts:
                        x = consts[x.id]  # module-level tuple of kinds (e.g. DECL_TYPES)
                    for k in ast.walk(x):
                        if isinstance(k, ast.Constant) and isinstance(k.value, str):
                            kinds.add(k.value)
    return sorted(kinds) + ["other"] if kinds else []


class Gen:
    def __init__(self, rng, strs, ints, kinds=None):
        self.rng, self.strs, self.ints = rng, strs, ints
        self.kinds = kinds or None
        self.nid = 0

    def s(self):
        made = self.__dict__.setdefault("made", [])
        if made and self.rng.random() < 0.25:
            # strings RELATED to one generated earlier for the same input (extension by a component, prefix up to a
            # separator, the same string again): prefix / containment / equality relations between arguments
            base = self.rng.choice(made)
            k = self.rng.randrange(3)
            if k == 0:
                out = base + self.rng.choice(["/", "::", "."]) + self.rng.choice(self.strs)
            elif k == 1 and any(sep in base for sep in ("/", "::", ".")):
                sep = next(sep for sep in ("/", "::", ".") if sep in base)
                out = base.rsplit(sep, 1)[0]
            else:
                out = base
        else:
            out = self._fresh_s()
        made.append(out)
        del made[:-8]
        return out

    def _fresh_s(self):
        r = self.rng.random()
        if r < 0.6:
            return self.rng.choice(self.strs)
        if r < 0.85:
            return self.rng.choice(self.strs) + self.rng.choice(self.strs)
        return self.rng.choice(self.strs) + self.rng.choice(["/", ".", "_", "-", "::", " "]) + self.rng.choice(self.strs)

    def any_val(self, depth=0):
        k = self.rng.randrange(7 if depth < 2 else 4)
        if k == 0:
            return self.rng.choice(self.ints)
        if k == 1:
            return self.s()
        if k == 2:
            return self.rng.random() < 0.5
        if k == 3:
            return None
        if k == 4:
            return [self.s() for _ in range(self.rng.randrange(3))]
        if k == 5:
            return {self.rng.choice(self.strs): self.any_val(depth + 1) for _ in range(self.rng.randrange(3))}
        return [self.any_val(depth + 1) for _ in range(self.rng.randrange(3))]

    def node(self, ty, depth=0, kinds=None):
        self.nid += 1
        my = self.nid  # fixed before the children are generated: a parent must not share its key with a descendant
        kinds = kinds or self.kinds or self.strs
        kids = [] if depth >= 3 else [self.node(ty, depth + 1, kinds) for _ in range(self.rng.choice([0, 0, 1, 2, 3]))]
        return {"__node__": f"n{my}", "type": self.rng.choice(kinds), "children": kids,
                "text": self.rng.choice([None, self.s(), self.s()]) if "text" in ty.attrs else None,
                "start_point": (self.rng.randrange(5), self.rng.randrange(9)), "end_point": (self.rng.randrange(5, 9), 0),
                "id": my}

    def value(self, ty: Ty, depth=0):
        if getattr(ty, "native_gen", None) is not None:
            return {"__opaque_native__": ty.native_gen(self)}
        if ty is Int:
            return self.rng.choice(self.ints)
        if ty is Bool:
            return self.rng.random() < 0.5
        if ty is Str:
            return self.s()
        if ty is Bytes:
            return self.s()
        if ty is NoneT:
            return None
        if ty is Any:
            return self.any_val()
        if isinstance(ty, type(Dict)):
            return {self.rng.choice(self.strs): self.any_val(1) for _ in range(self.rng.randrange(4))}
        if isinstance(ty, Opt):
            return None if self.rng.random() < 0.3 else self.value(ty.inner, depth)
        if isinstance(ty, Assoc):
            return [[self.s(), self.value(ty.valty, depth + 1)] for _ in range(self.rng.randrange(4))]
        if isinstance(ty, SeqOf):
            out = [self.value(ty.elem, depth + 1) for _ in range(self.rng.randrange(4))]
            # repeated elements are an interesting input class of their own (de-duplication, "exactly once" clauses)
            while out and self.rng.random() < 0.35 and len(out) < 6:
                import copy
                out.insert(self.rng.randrange(len(out) + 1), copy.deepcopy(self.rng.choice(out)))
            return out
        if isinstance(ty, TupleOf):
            return tuple(self.value(t, depth + 1) for t in ty.elems)
        if isinstance(ty, Rec):
            return {"__rec__": ty.name, **{k: self.value(t, depth + 1) for k, t in ty.fields.items()}}
        if isinstance(ty, NodeTy):
            if ty.name != "TSNode":
                raise CannotGenerate(ty.name)
            root = self.node(ty)
            # pick a random node of the tree so that it has ancestors / siblings
            allnodes, todo = [], [root]
            while todo:
                n = todo.pop()
                allnodes.append(n)
                todo.extend(n["children"])
            pick = self.rng.choice(allnodes)
            pick["__pick__"] = True
            return {"__tree__": root}
        if isinstance(ty, Opaque):
            g = OPAQUE_GENERATORS.get(ty.name)
            if g is None:
                raise CannotGenerate(ty.name)
            return {"__opaque_native__": g(self)}
        from .ty import EnumOf
        if isinstance(ty, EnumOf):
            # a member of the enum class, as its value string (native.build_value turns it into the real member)
            try:
                _, _, cls = native.resolve_target(ty.cls)
                return self.rng.choice([m.value for m in cls])
            except Exception as e:  # noqa
                raise CannotGenerate(f"{ty.name}: {e!r}")
        raise CannotGenerate(repr(ty))


OPAQUE_GENERATORS = {}


def _build(ty, mv):
    """Like native.build_value but understands the generator's tree / opaque markers."""
    if isinstance(mv, dict) and "__tree__" in mv:
        memo = {}
        root = ty.build_native(mv["__tree__"], memo)
        # find the picked node
        todo = [(mv["__tree__"], root)]
        while todo:
            m, n = todo.pop()
            if m.get("__pick__"):
                return n
            todo.extend(zip(m["children"], n.children))
        return root
    if isinstance(mv, dict) and "__opaque_native__" in mv:
        return mv["__opaque_native__"]
    return None


def run(repo, units, seed, per_contract=150):
    """units: list of contract targets that were fully discharged. Returns (evaluations, disagreements, skipped)."""
    import inspect
    rng = random.Random(seed)
    evals, bad, skipped = 0, [], []
    orig_build = native.build_value

    def patched(ty, mv, memo=None):
        r = _build(ty, mv)
        if r is not None:
            return r
        return orig_build(ty, mv, memo)

    native.build_value = patched
    try:
        for key in units:
            c = api.REGISTRY[key]
            if c.assumed or c.opts.get("no_selftest"):
                continue
            strs, ints = harvest_constants(repo, c)
            g = Gen(rng, strs, ints)
            try:
                mod, owner, obj = native.resolve_target(c.target)
                fn = obj.__func__ if isinstance(obj, (staticmethod, classmethod)) else (obj.fget if isinstance(obj, property) else obj)
                pnames = [p for p in inspect.signature(fn).parameters]
            except Exception as e:  # noqa
                skipped.append((key, f"cannot import: {e!r}"[:200]))
                continue
            ok_runs = 0
            for _ in range(per_contract):
                try:
                    inputs = {n: g.value(c.types[n]) for n in pnames if n in c.types}
                except CannotGenerate as e:
                    skipped.append((key, f"no generator for {e}"))
                    break
                try:
                    r = native.replay(c, inputs)
                except BaseException as e:  # noqa
                    skipped.append((key, f"replay error {e!r}"[:200]))
                    break
                if r.get("requires_holds") is False or r.get("requires_holds") is None and "requires_error" in r:
                    continue
                ok_runs += 1
                evals += 1
                if r.get("confirmed"):
                    # a clause listed in known_findings.json as refuted is EXPECTED to fail natively: not a disagreement
                    from .ex_call import _refuted_known
                    failed = [f for f in (r.get("failed_clauses") or []) if not _refuted_known(f"{c.target}/post.{f}")]
                    if not failed:
                        continue
                    bad.append({"target": key, "failed": failed, "args": r.get("args"),
                                "result": r.get("result"), "raised": r.get("raised")})
                    break
            if ok_runs == 0 and not any(k == key for k, _ in skipped):
                skipped.append((key, "no generated input satisfied the precondition"))
    finally:
        native.build_value = orig_build
    return evals, bad, skipped


def search_witness(repo, c: api.Contract, seed, n=400):
    """After a refutation whose counter-model did not replay (over-abstraction: opaque functions, uninterpreted
    builtins), look for a concrete failing input by running the real function on generated inputs. Bounded search,
    used only to FIND an input, never to claim anything when it finds none."""
    import inspect
    if c.assumed or c.opts.get("no_selftest"):
        # the contract opts out of native runs on GENERATED inputs (process-level effects, file-system / whole-project
        # linting): nothing is searched -- its own witness_*() inputs are still replayed by the caller
        return None
    rng = random.Random(seed)
    strs, ints = harvest_constants(repo, c)
    g = Gen(rng, strs, ints, kinds=harvest_node_kinds(repo, c))
    orig_build = native.build_value

    def patched(ty, mv, memo=None):
        r = _build(ty, mv)
        return r if r is not None else orig_build(ty, mv, memo)

    native.build_value = patched
    try:
        mod, owner, obj = native.resolve_target(c.target)
        fn = obj.__func__ if isinstance(obj, (staticmethod, classmethod)) else (obj.fget if isinstance(obj, property) else obj)
        pnames = [p for p in inspect.signature(fn).parameters]
        for _ in range(n):
            try:
                inputs = {k: g.value(c.types[k]) for k in pnames if k in c.types}
            except CannotGenerate:
                return None
            try:
                r = native.replay(c, inputs)
            except BaseException:  # noqa
                continue
            if r.get("confirmed") and r.get("requires_holds") is not False:
                r["found_by"] = "native search after refutation"
                return r
    except BaseException:  # noqa
        return None
    finally:
        native.build_value = orig_build
    return None
