"""pyvc.ty -- type descriptors and symbolic values.

A *type* (Ty) says how a Python value is represented in SMT: its z3 sort, how to make a fresh
symbolic instance, and how to move between the "exploded" form the executor works with (records as
Python dicts of field values, optionals as (is_none, value) pairs, lists of known length as Python
lists) and the "packed" form (one z3 term) needed for sequence elements and recursive spec functions.
"""
from __future__ import annotations

import itertools
import z3

_counter = itertools.count()


def fresh_name(base: str) -> str:
    return f"{base}!{next(_counter)}"


class Unsupported(Exception):
    """The construct is outside the verified subset: the function is reported undecided."""


# ---------------------------------------------------------------------------------------------
# values
# ---------------------------------------------------------------------------------------------
class V:
    ty: "Ty"

    def clone(self, memo):
        return self


class VInt(V):
    def __init__(self, t):
        self.t = t if z3.is_expr(t) else z3.IntVal(t)
        self.ty = Int

    def __repr__(self):
        return f"VInt({self.t})"


class VBool(V):
    def __init__(self, t):
        self.t = t if z3.is_expr(t) else z3.BoolVal(bool(t))
        self.ty = Bool

    def __repr__(self):
        return f"VBool({self.t})"


class VStr(V):
    def __init__(self, t, is_bytes=False):
        self.t = t if z3.is_expr(t) else z3.StringVal(t)
        self.is_bytes = is_bytes
        self.ty = Bytes if is_bytes else Str

    def __repr__(self):
        return f"VStr({self.t})"


class VEnum(VStr):
    """A member of an Enum class, represented by its VALUE (a string); `.value` / `.name` are understood, every
    other operation sees the value string (as for `class X(str, Enum)` members)."""

    def __init__(self, t, enum_ty):
        VStr.__init__(self, t)
        self.enum_ty = enum_ty

    def __repr__(self):
        return f"VEnum({self.t})"


class VNone(V):
    def __init__(self):
        self.ty = NoneT

    def __repr__(self):
        return "VNone"


class VOpt(V):
    """Optional value in exploded form."""

    def __init__(self, isnone, val: V, inner: "Ty"):
        self.isnone = isnone
        self.val = val
        self.ty = Opt(inner)

    def clone(self, memo):
        from .ty import VRec, VList, VDict
        if not isinstance(self.val, (VRec, VList, VDict)):
            return self  # immutable content
        return VOpt(self.isnone, self.val.clone(memo), self.ty.inner)

    def __repr__(self):
        return f"VOpt({self.isnone},{self.val})"


class VNode(V):
    def __init__(self, t, ty):
        self.t = t
        self.ty = ty

    def __repr__(self):
        return f"VNode({self.t})"


class VOpaque(V):
    def __init__(self, t, ty):
        self.t = t
        self.ty = ty

    def __repr__(self):
        return f"VOpaque({self.t})"


class VAny(V):
    """A dynamically typed value (element of the Val datatype)."""

    def __init__(self, t):
        self.t = t
        self.ty = Any

    def __repr__(self):
        return f"VAny({self.t})"


class VDict(V):
    """dict with string keys: Array(String -> Val); Absent marks a missing key. Mutable object."""

    def __init__(self, t):
        self.t = t
        self.ty = Dict

    def clone(self, memo):
        if id(self) in memo:
            return memo[id(self)]
        c = VDict(self.t)
        memo[id(self)] = c
        return c

    def __repr__(self):
        return f"VDict({self.t})"


def _alias_state(d):
    """Where the alias bookkeeping of a dict object lives (a VDictRef is a per-use view: its state is its reference's)."""
    return d.ref if isinstance(d, VDictRef) else d


class VAnyRef(VAny):
    """The value stored in a dict under a key, seen as a REFERENCE into that dict (`x = d[k]`): reads give the current
    content of d[k]; item assignment through x updates d (Python aliasing of nested dicts). When an entry of d is
    re-bound directly (`d[j] = v`) every live reference is frozen to the value it had: reads stay correct (x keeps
    denoting the object it was bound to). Writes through a frozen reference, and writes through any reference of a dict
    that has frozen references, are outside the subset (Unsupported) -- so a frozen snapshot can never go stale."""

    def __init__(self, owner, key_term):
        self.owner = owner  # VDict (or VDictRef)
        self.key = key_term
        self.frozen = None
        self.ty = Any
        st = _alias_state(owner)
        if not hasattr(st, "child_refs"):
            st.child_refs = []
        st.child_refs.append(self)

    @property
    def t(self):
        if self.frozen is not None:
            return self.frozen
        return z3.Select(self.owner.t, self.key)

    def freeze(self):
        if self.frozen is None:
            self.frozen = z3.Select(self.owner.t, self.key)
            for r in getattr(self, "child_refs", ()):
                r.freeze()

    def write(self, val):
        if self.frozen is not None:
            raise Unsupported("item assignment through a reference whose owner dict was re-bound (aliasing lost)")
        if getattr(_alias_state(self.owner), "had_frozen", False):
            raise Unsupported("item assignment through a reference into a dict that has frozen references (aliasing lost)")
        self.owner.t = z3.Store(self.owner.t, self.key, val)

    def clone(self, memo):
        return VAny(self.t)

    def __repr__(self):
        return f"VAnyRef({self.t})"


class VMap(V):
    """dict whose keys are not strings and/or whose values are structured (e.g. dict[Path, list[CodeBlock]]), as two SMT
    arrays: present(k) and value(k). Mutable object. Only `k in d`, `d[k]`, `d[k] = v` and the in-place
    `d[k].append(x)` are modelled; everything else (iteration, len, ==, get, setdefault...) stays Unsupported."""

    def __init__(self, ty, present, vals):
        self.ty = ty
        self.present = present
        self.vals = vals

    def clone(self, memo):
        if id(self) in memo:
            return memo[id(self)]
        c = VMap(self.ty, self.present, self.vals)
        memo[id(self)] = c
        return c

    def __repr__(self):
        return f"VMap({self.ty.name})"


class VDictRef(VDict):
    """Dict view of a VAnyRef: reads and writes go through the reference (so they reach the owning dict)."""

    def __init__(self, ref):
        self.ref = ref
        self.ty = Dict

    @property
    def t(self):
        return ValSort.dv(self.ref.t)

    @t.setter
    def t(self, val):
        self.ref.write(ValSort.D(val))

    def clone(self, memo):
        return VDict(self.t)


def freeze_refs(d):
    """An entry of d is about to be re-bound directly: outstanding references keep the values they denote now."""
    st = _alias_state(d)
    live = [r for r in getattr(st, "child_refs", ()) if r.frozen is None]
    for r in live:
        r.freeze()
    if live:
        st.had_frozen = True
        st.child_refs = []


class VList(V):
    """Mutable list. Either `items` (known length, Python list of V) or `seq` (z3 Seq term)."""

    def __init__(self, elem: "Ty", items=None, seq=None):
        self.elem = elem
        self.items = items
        self.seq = seq
        self.ty = SeqOf(elem)
        assert (items is None) != (seq is None)

    def clone(self, memo):
        if id(self) in memo:
            return memo[id(self)]
        c = VList(self.elem, items=None if self.items is None else [], seq=self.seq)
        if getattr(self, "assoc", False):
            c.assoc = True
        if getattr(self, "is_set", False):
            c.is_set = True
        if hasattr(self, "origin"):
            c.origin = self.origin
        memo[id(self)] = c
        if self.items is not None:
            c.items = [x.clone(memo) for x in self.items]
        return c

    def term(self):
        if self.seq is not None:
            return self.seq
        if self.elem is None:
            raise Unsupported("list of unknown element type used symbolically")
        srt = z3.SeqSort(self.elem.sort())
        if not self.items:
            return z3.Empty(srt)
        parts = [z3.Unit(self.elem.pack(x)) for x in self.items]
        return parts[0] if len(parts) == 1 else z3.Concat(*parts)

    def length(self):
        if self.items is not None:
            return z3.IntVal(len(self.items))
        return z3.Length(self.seq)

    def __repr__(self):
        return f"VList({self.items if self.items is not None else self.seq})"


class VTuple(V):
    def __init__(self, items):
        self.items = list(items)
        self.ty = TupleOf(*[x.ty for x in self.items])

    def clone(self, memo):
        c = VTuple([x.clone(memo) for x in self.items])
        if hasattr(self, "packed") and all(a is b for a, b in zip(c.items, self.items)):
            c.packed, c.pty = self.packed, self.pty
        return c

    def __repr__(self):
        return f"VTuple({self.items})"


class VRec(V):
    """Record / object with named fields (dataclass instance, self, dict with constant keys)."""

    def __init__(self, ty: "Rec", fields: dict):
        self.ty = ty
        self.fields = fields

    def clone(self, memo):
        if id(self) in memo:
            return memo[id(self)]
        c = VRec(self.ty, {})
        memo[id(self)] = c
        c.fields = {k: v.clone(memo) for k, v in self.fields.items()}
        return c

    def __repr__(self):
        return f"VRec({self.ty.name},{self.fields})"


class VSet(V):
    """set(<symbolic list of ints>): only membership (`in`) is modelled; `lst` is the sequence it was built from.
    Every other operation (len, iteration, ==, indexing) is outside the verified subset and stays Unsupported."""

    def __init__(self, lst: "VList"):
        self.lst = lst
        self.ty = SeqOf(lst.elem)

    def __repr__(self):
        return f"VSet({self.lst})"


class VConst(V):
    """A compile-time Python constant that has no scalar SMT form (set, dict, module, class...)."""

    def __init__(self, py):
        self.py = py
        self.ty = ConstT

    def __repr__(self):
        return f"VConst({self.py!r})"


class VFunc(V):
    """Reference to a function of the program (or a spec function / lambda)."""

    def __init__(self, info, bound_self=None, closure=None):
        self.info = info  # resolve.FuncInfo
        self.bound_self = bound_self
        self.closure = closure
        self.ty = ConstT

    def __repr__(self):
        return f"VFunc({self.info.key})"


class VClass(V):
    def __init__(self, info):
        self.info = info  # resolve.ClassInfo or a python class for externals
        self.ty = ConstT

    def __repr__(self):
        return f"VClass({getattr(self.info, 'key', self.info)})"


class VExc(V):
    """An exception instance (class name + message)."""

    def __init__(self, cls: str, msg: V | None = None):
        self.cls = cls
        self.msg = msg
        self.ty = ConstT

    def __repr__(self):
        return f"VExc({self.cls})"


class VRange(V):
    """range(lo, hi) with symbolic bounds (step 1). Only `for <name> in range(..)` under a loop invariant is modelled
    (Exec._for_range); every other use stays Unsupported."""

    def __init__(self, lo, hi):
        self.lo = lo  # z3 Int terms
        self.hi = hi
        self.ty = ConstT

    def __repr__(self):
        return f"VRange({self.lo},{self.hi})"


# ---------------------------------------------------------------------------------------------
# types
# ---------------------------------------------------------------------------------------------
class Ty:
    name = "?"
    native_gen = None  # optional: fn(gen) -> native value, for the CPython cross-check (type invariants of fields)

    def with_gen(self, fn):
        import copy
        t = copy.copy(self)
        t.native_gen = fn
        return t

    def sort(self):
        raise Unsupported(f"type {self.name} has no SMT sort")

    def fresh(self, base: str) -> V:
        return self.wrap(z3.Const(fresh_name(base), self.sort()))

    def wrap(self, term) -> V:
        raise NotImplementedError

    def pack(self, v: V):
        raise NotImplementedError

    def __repr__(self):
        return self.name


class _Int(Ty):
    name = "Int"

    def sort(self):
        return z3.IntSort()

    def wrap(self, term):
        return VInt(term)

    def pack(self, v):
        v = coerce(v, self)
        return v.t


class _Bool(Ty):
    name = "Bool"

    def sort(self):
        return z3.BoolSort()

    def wrap(self, term):
        return VBool(term)

    def pack(self, v):
        v = coerce(v, self)
        return v.t


class _Str(Ty):
    name = "Str"

    def sort(self):
        return z3.StringSort()

    def wrap(self, term):
        return VStr(term)

    def pack(self, v):
        v = coerce(v, self)
        return v.t


class _Bytes(Ty):
    name = "Bytes"

    def sort(self):
        return z3.StringSort()

    def wrap(self, term):
        return VStr(term, is_bytes=True)

    def pack(self, v):
        return v.t


class _NoneT(Ty):
    name = "None"

    def fresh(self, base):
        return VNone()


class _ConstT(Ty):
    name = "Const"


Int, Bool, Str, Bytes, NoneT, ConstT = _Int(), _Bool(), _Str(), _Bytes(), _NoneT(), _ConstT()

_sort_cache: dict = {}


class NodeTy(Ty):
    """Tree node of an external parser (tree-sitter / ast): uninterpreted sort with a null element.
    Attributes are uninterpreted functions declared in `attrs` (name -> Ty)."""

    def __init__(self, name, attrs=None):
        self.name = name
        self.attrs = attrs if attrs is not None else {}
        self._sort = z3.DeclareSort(name)
        self.null = z3.Const(f"{name}.null", self._sort)
        self._funcs = {}

    def sort(self):
        return self._sort

    def wrap(self, term):
        return VNode(term, self)

    def pack(self, v):
        if isinstance(v, VNone):
            return self.null
        if isinstance(v, VOpt):
            return z3.If(v.isnone, self.null, self.pack(v.val))
        if not isinstance(v, VNode):
            raise Unsupported(f"cannot pack {v} as {self.name}")
        return v.t

    def attr_func(self, attr):
        if attr not in self._funcs:
            aty = self.attrs[attr]
            self._funcs[attr] = z3.Function(f"{self.name}.{attr}", self._sort, aty.sort())
        return self._funcs[attr]


class Opt(Ty):
    def __init__(self, inner: Ty):
        if isinstance(inner, Opt):
            inner = inner.inner
        self.inner = inner
        self.name = f"Opt({inner.name})"

    def sort(self):
        key = _tykey(self)
        if key not in _sort_cache:
            m = _unique_mangle(self.inner.name)
            d = z3.Datatype(f"Opt_{m}")
            d.declare(f"none_{m}")
            d.declare(f"some_{m}", (f"the_{m}", self.inner.sort()))
            _sort_cache[key] = d.create()
        return _sort_cache[key]

    def fresh(self, base):
        if isinstance(self.inner, NodeTy):
            return self.inner.fresh(base)
        isn = z3.Const(fresh_name(base + ".isnone"), z3.BoolSort())
        return VOpt(isn, self.inner.fresh(base + ".val"), self.inner)

    def wrap(self, term):
        if isinstance(self.inner, NodeTy):
            return self.inner.wrap(term)
        s = self.sort()
        v = VOpt(s.recognizer(0)(term), self.inner.wrap(s.accessor(1, 0)(term)), self.inner)
        v.packed = term
        return v

    def pack(self, v):
        if isinstance(self.inner, NodeTy):
            return self.inner.pack(v)
        s = self.sort()
        none, some = s.constructor(0)(), s.constructor(1)
        if isinstance(v, VNone):
            return none
        if isinstance(v, VOpt):
            pk = getattr(v, "packed", None)
            if pk is not None and pk.sort().eq(s):
                return pk
            return z3.If(v.isnone, none, some(self.inner.pack(v.val)))
        return some(self.inner.pack(v))


class SeqOf(Ty):
    def __init__(self, elem: Ty):
        self.elem = elem
        self.name = f"Seq({elem.name if elem else '?'})"

    def sort(self):
        return z3.SeqSort(self.elem.sort())

    def wrap(self, term):
        return VList(self.elem, seq=term)

    def pack(self, v):
        if isinstance(v, (VAny, VOpt)):
            v = coerce(v, self)
        if isinstance(v, VTuple):
            v = VList(self.elem, items=list(v.items))
        if isinstance(v, VSet):
            v = v.lst  # a field/parameter DECLARED as a sequence holds a set: the contract author's membership-only view
        if isinstance(v, VConst) and isinstance(v.py, (set, frozenset)) and all(type(x) is int for x in v.py):
            v = VList(self.elem, items=[lift(x) for x in sorted(v.py)])  # same membership-only view of a constant set
        if isinstance(v, VConst) and isinstance(v.py, (tuple, list)):
            from .ty import lift
            v = VList(self.elem, items=[lift(x) for x in v.py])
        if not isinstance(v, VList):
            raise Unsupported(f"cannot pack {v} as {self.name}")
        if v.elem is None and v.items is not None:
            v = VList(self.elem, items=v.items)
        return v.term()


class Assoc(SeqOf):
    """dict[str, V] seen as an association list in insertion order (keys pairwise distinct is a precondition the
    contract must state when it matters). Supports .items(), iteration over keys, len()."""

    def __init__(self, valty, keyty=None):
        SeqOf.__init__(self, TupleOf(keyty or Str, valty))
        self.valty = valty
        self.keyty = keyty or Str  # keys other than str (e.g. opaque Path objects) are only compared for equality
        self.name = f"Assoc({valty.name})" if keyty is None else f"Assoc({keyty.name},{valty.name})"

    def wrap(self, term):
        v = VList(self.elem, seq=term)
        v.assoc = True
        return v


class TupleOf(Ty):
    def __init__(self, *elems):
        self.elems = list(elems)
        self.name = "Tuple(" + ",".join(e.name for e in elems) + ")"

    def sort(self):
        key = _tykey(self)
        if key not in _sort_cache:
            m = _unique_mangle(self.name)
            d = z3.Datatype(f"Tup_{m}")
            d.declare(f"mk_{m}", *[(f"f{i}_{m}", e.sort()) for i, e in enumerate(self.elems)])
            _sort_cache[key] = d.create()
        return _sort_cache[key]

    def fresh(self, base):
        return VTuple([e.fresh(f"{base}.{i}") for i, e in enumerate(self.elems)])

    def wrap(self, term):
        s = self.sort()
        v = VTuple([e.wrap(s.accessor(0, i)(term)) for i, e in enumerate(self.elems)])
        v.packed = term
        v.pty = self
        return v

    def pack(self, v):
        if isinstance(v, VList) and v.items is not None:
            v = VTuple(v.items)
        if not isinstance(v, VTuple) or len(v.items) != len(self.elems):
            raise Unsupported(f"cannot pack {v} as {self.name}")
        s = self.sort()
        pk = getattr(v, "packed", None)
        if pk is not None and pk.sort().eq(s):
            return pk
        return s.constructor(0)(*[e.pack(x) for e, x in zip(self.elems, v.items)])


class Rec(Ty):
    """Record with named, typed fields. `pycls` ("module:qualname") lets replay rebuild the real object."""

    def __init__(self, name, /, pycls=None, as_dict=False, cls=None, closed=False, optkeys=False, **fields):
        self.name = name
        self.fields = dict(fields)
        self.pycls = pycls
        self.as_dict = as_dict
        self.cls = cls  # "relpath::Class": methods and class constants are resolved there
        self.closed = closed
        self.optkeys = optkeys  # as_dict only: a field of type Opt(T) that is None means the KEY IS ABSENT

    def extend(self, name=None, **more):
        f = dict(self.fields)
        f.update(more)
        return Rec(name or self.name, pycls=self.pycls, as_dict=self.as_dict, cls=self.cls, closed=self.closed, optkeys=self.optkeys, **f)

    def with_cls(self, cls):
        return Rec(self.name, pycls=self.pycls, as_dict=self.as_dict, cls=cls, closed=self.closed, optkeys=self.optkeys, **self.fields)

    def sort(self):
        # one datatype per (name, field names, STRUCTURE of the field types); constructor arguments are in sorted
        # field-name order, so two descriptors that list the same fields in a different order denote the same
        # sort AND agree on which argument is which field
        key = _tykey(self)
        if key not in _sort_cache:
            fsorts = [(k, self.fields[k].sort()) for k in sorted(self.fields)]  # nested records first (own names)
            m = f"{_mangle(self.name)}_{len(_sort_cache)}"
            d = z3.Datatype(f"Rec_{m}")
            d.declare(f"mkrec_{m}", *[(f"{k}_{m}", fs) for k, fs in fsorts])
            _sort_cache[key] = d.create()
        return _sort_cache[key]

    def fresh(self, base):
        return VRec(self, {k: t.fresh(f"{base}.{k}") for k, t in self.fields.items()})

    def wrap(self, term):
        s = self.sort()
        pos = {k: i for i, k in enumerate(sorted(self.fields))}
        v = VRec(self, {k: t.wrap(s.accessor(0, pos[k])(term)) for k, t in self.fields.items()})
        # remember the term this record was unpacked from: re-packing an UNMODIFIED record gives the term back
        # (instead of mkrec(acc_1(term), ..), which is equal but much harder for the sequence solver)
        v.packed_from = (term, dict(v.fields))
        return v

    def pack(self, v):
        if isinstance(v, VOpt) and isinstance(v.val, VRec):
            v = v.val  # Optional[record] used where a record is required: guarded by the caller (as Opaque / Dict pack)
        if not isinstance(v, VRec):
            raise Unsupported(f"cannot pack {v} as record {self.name}")
        s = self.sort()
        pf = getattr(v, "packed_from", None)
        if pf is not None and pf[0].sort().eq(s) and set(pf[1]) == set(v.fields) \
                and all(v.fields[k] is x and _immutable_value(x) for k, x in pf[1].items()):
            return pf[0]
        return s.constructor(0)(*[self.fields[k].pack(v.fields[k]) for k in sorted(self.fields)])


def _immutable_value(x):
    """Values that cannot change behind an unchanged Python reference (no in-place mutation possible)."""
    if isinstance(x, (VInt, VBool, VStr, VOpaque, VNode, VAny, VNone)):
        return True
    if isinstance(x, VOpt):
        return _immutable_value(x.val)
    if isinstance(x, VTuple):
        return all(_immutable_value(y) for y in x.items)
    return False


def _tykey(t):
    """Structural identity of a type descriptor (two record types of the same name but different fields differ)."""
    if isinstance(t, EnumOf):
        return "Str"
    if isinstance(t, Rec):
        return ("rec", t.name, tuple((k, _tykey(t.fields[k])) for k in sorted(t.fields)))
    if isinstance(t, Opt):
        return ("opt", _tykey(t.inner))
    if isinstance(t, TupleOf):
        return ("tuple",) + tuple(_tykey(e) for e in t.elems)
    if isinstance(t, SeqOf):
        return ("seq", _tykey(t.elem) if t.elem is not None else None)
    return t.name


class ClassKey:
    """Unresolved reference to a class of the program ("relpath::Class"); resolved by the executor on first use."""

    def __init__(self, key):
        self.key = key
        self.name = key.split("::")[-1]


class ClassOf(Ty):
    """A class object passed as a value (e.g. a config class handed to a generic loader). The parameter stands for
    the named protocol / base class: attribute access and calls resolve there (subclass dispatch is by contract)."""

    def __init__(self, key):
        self.key = key
        self.name = f"ClassOf({key})"

    def fresh(self, base):
        return VClass(ClassKey(self.key))


class EnumOf(Ty):
    """Member of the string-valued Enum class `cls` ("relpath::Class"), represented by its value string: same SMT sort
    (and same structural identity) as Str, so a record with an EnumOf field and the same record with a Str field
    holding the member's value are ONE sort -- two views of the same objects."""

    def __init__(self, cls, pycls=None):
        self.cls = cls
        self.pycls = pycls
        self.name = f"Enum({cls.split('::')[-1]})"

    def sort(self):
        return z3.StringSort()

    def wrap(self, term):
        return VEnum(term, self)

    def pack(self, v):
        return coerce(v, Str).t


class UFCallable(Ty):
    """A function-valued parameter standing for an uninterpreted function declared with api.uf(name, ...): calling the
    parameter applies that function (pure, total, same result for the same arguments)."""

    def __init__(self, uf_name):
        self.uf_name = uf_name
        self.name = f"UFCallable({uf_name})"

    def fresh(self, base):
        return VConst(("uf", self.uf_name))


class Opaque(Ty):
    """A value the proofs never look inside (Path objects, compiled regexes, Violation objects...)."""

    def __init__(self, name):
        self.name = name
        self._sort = z3.DeclareSort(name)

    def sort(self):
        return self._sort

    def wrap(self, term):
        return VOpaque(term, self)

    def pack(self, v):
        if isinstance(v, VOpt):
            v = v.val
        if not isinstance(v, VOpaque):
            raise Unsupported(f"cannot pack {v} as {self.name}")
        return v.t


def _mangle(s):
    return "".join(c if c.isalnum() else "_" for c in s)


_mangled_used: set = set()


def _unique_mangle(s):
    """Datatype name stem: the plain mangled name the first time, suffixed when two structurally different types
    print the same (e.g. Opt of two record types that are both called "dict")."""
    m = _mangle(s)
    if m in _mangled_used:
        m = f"{m}_{len(_sort_cache)}"
    _mangled_used.add(m)
    return m


# ---- dynamically typed values and dicts -------------------------------------------------------
def _make_val():
    d = z3.Datatype("Val")
    d.declare("Absent")
    d.declare("NoneV")
    d.declare("I", ("iv", z3.IntSort()))
    d.declare("B", ("bv", z3.BoolSort()))
    d.declare("S", ("sv", z3.StringSort()))
    d.declare("LS", ("lsv", z3.SeqSort(z3.StringSort())))
    d.declare("LI", ("liv", z3.SeqSort(z3.IntSort())))
    d.declare("D", ("dv", z3.ArraySort(z3.StringSort(), z3.DatatypeSort("Val"))))
    d.declare("LV", ("lvv", z3.SeqSort(z3.DatatypeSort("Val"))))
    return d.create()


ValSort = _make_val()
DictSort = z3.ArraySort(z3.StringSort(), ValSort)
EmptyDict = z3.K(z3.StringSort(), ValSort.Absent)


class _Any(Ty):
    name = "Any"

    def sort(self):
        return ValSort

    def wrap(self, term):
        return VAny(term)

    def pack(self, v):
        return to_val(v)


class MapOf(Ty):
    """dict[K, V] as a pair of arrays (see VMap). Usable for locals (a `{}` bound to a name the contract types MapOf),
    parameters and results; not packable (no sort of its own: it cannot be an element of a sequence or record)."""

    def __init__(self, key, val):
        self.key, self.val = key, val
        self.name = f"Map({key.name},{val.name})"

    def _sorts(self):
        return z3.ArraySort(self.key.sort(), z3.BoolSort()), z3.ArraySort(self.key.sort(), self.val.sort())

    def fresh(self, base):
        ps, vs = self._sorts()
        return VMap(self, z3.Const(fresh_name(base + ".has"), ps), z3.Const(fresh_name(base + ".val"), vs))

    def empty(self):
        ps, vs = self._sorts()
        return VMap(self, z3.K(self.key.sort(), z3.BoolVal(False)), z3.Const(fresh_name("map.unset"), vs))


class _Dict(Ty):
    name = "Dict"

    def sort(self):
        return DictSort

    def wrap(self, term):
        return VDict(term)

    def pack(self, v):
        if isinstance(v, VOpt):
            v = v.val
        if isinstance(v, VAny):
            return ValSort.dv(v.t)
        if isinstance(v, VRec) and v.ty.as_dict and not getattr(v.ty, "optkeys", False):
            return recdict_term(v)
        if isinstance(v, VConst) and isinstance(v.py, dict):
            return ValSort.dv(to_val(v))  # a constant dict (module-level table)
        if not isinstance(v, VDict):
            raise Unsupported(f"cannot pack {v} as Dict")
        return v.t


Any, Dict = _Any(), _Dict()


def recdict_term(v):
    """A dict with constant keys (literal display / kwargs record) as an Array(String -> Val) term."""
    t = EmptyDict
    for k, x in v.fields.items():
        t = z3.Store(t, z3.StringVal(k), to_val(x))
    return t


def to_val(v: V):
    """Inject a typed value into the Val datatype."""
    if isinstance(v, VAny):
        return v.t
    if isinstance(v, VRec) and v.ty.as_dict and not getattr(v.ty, "optkeys", False):
        return ValSort.D(recdict_term(v))
    if isinstance(v, VInt):
        return ValSort.I(v.t)
    if isinstance(v, VBool):
        return ValSort.B(v.t)
    if isinstance(v, VStr):
        return ValSort.S(v.t)
    if isinstance(v, VNone):
        return ValSort.NoneV
    if isinstance(v, VDict):
        return ValSort.D(v.t)
    if isinstance(v, VOpt):
        return z3.If(v.isnone, ValSort.NoneV, to_val(v.val))
    if isinstance(v, VList):
        if v.elem is Str or (v.items is not None and all(isinstance(x, VStr) for x in v.items)):
            return ValSort.LS(VList(Str, items=v.items, seq=v.seq).term() if v.items is not None else v.seq)
        if v.elem is Int or (v.items is not None and all(isinstance(x, VInt) for x in v.items)):
            return ValSort.LI(VList(Int, items=v.items, seq=v.seq).term() if v.items is not None else v.seq)
    if isinstance(v, VList) and (v.elem is Any or (v.items is not None)):
        if v.items is not None:
            parts = [z3.Unit(to_val(x)) for x in v.items]
            return ValSort.LV(z3.Concat(*parts) if len(parts) > 1 else (parts[0] if parts else z3.Empty(z3.SeqSort(ValSort))))
        return ValSort.LV(v.seq)
    if isinstance(v, VConst) and isinstance(v.py, dict):
        t = EmptyDict
        for k, x in v.py.items():
            t = z3.Store(t, z3.StringVal(k), to_val(lift(x)))
        return ValSort.D(t)
    raise Unsupported(f"cannot inject {v} into Val")


def lift(py) -> V:
    """Python constant -> symbolic value."""
    if isinstance(py, V):
        return py
    if isinstance(py, bool):
        return VBool(z3.BoolVal(py))
    if isinstance(py, int):
        return VInt(z3.IntVal(py))
    if isinstance(py, str):
        return VStr(z3.StringVal(py))
    if isinstance(py, bytes):
        return VStr(z3.StringVal(py.decode("latin-1")), is_bytes=True)
    if py is None:
        return VNone()
    if isinstance(py, tuple):
        return VTuple([lift(x) for x in py])
    if isinstance(py, list):
        items = [lift(x) for x in py]
        elem = items[0].ty if items and all(type(i) is type(items[0]) for i in items) else None
        return VList(elem, items=items)
    if isinstance(py, float):
        return VConst(py)
    return VConst(py)


def coerce(v: V, ty: Ty) -> V:
    """Coerce v to type ty where Python would accept it (Any -> typed with no check here)."""
    if isinstance(v, VOpt) and not isinstance(ty, Opt) and ty is not Any:
        v = v.val  # guarded by the caller (spec implications / safety obligations at the use site)
    if ty is Int:
        if isinstance(v, VInt):
            return v
        if isinstance(v, VBool):
            return VInt(z3.If(v.t, z3.IntVal(1), z3.IntVal(0)))
        if isinstance(v, VAny):
            # Python: bool is an int (True == 1, False == 0) wherever a dynamic value is used as a number
            return VInt(z3.If(ValSort.is_B(v.t), z3.If(ValSort.bv(v.t), z3.IntVal(1), z3.IntVal(0)), ValSort.iv(v.t)))
    elif ty is Bool:
        if isinstance(v, VBool):
            return v
        if isinstance(v, VAny):
            return VBool(ValSort.bv(v.t))
    elif ty is Str:
        if isinstance(v, VStr):
            return v
        if isinstance(v, VAny):
            return VStr(ValSort.sv(v.t))
    elif ty is Dict:
        if isinstance(v, VDict):
            return v
        if isinstance(v, VAny):
            return VDict(ValSort.dv(v.t))
    elif isinstance(ty, SeqOf):
        if isinstance(v, VList):
            return v
        if isinstance(v, VAny) and ty.elem is Str:
            return VList(Str, seq=ValSort.lsv(v.t))
        if isinstance(v, VAny) and ty.elem is Int:
            return VList(Int, seq=ValSort.liv(v.t))
        if isinstance(v, VAny) and ty.elem is Any:
            return VList(Any, seq=ValSort.lvv(v.t))
    elif isinstance(ty, Opt):
        return v
    else:
        return v
    raise Unsupported(f"cannot coerce {v} to {ty}")
