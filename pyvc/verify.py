"""pyvc.verify -- per-function verification: generate obligations from the real source, discharge them."""
from __future__ import annotations

import ast
import subprocess
import tempfile
import time
import os

import z3

from . import api
from .ex import Exec, Frame, exc_is, _type_of_value
from .ops import eq, simp, truthy
from .resolve import Repo
from .run import Infeasible, Obligation, RaiseSig, ReturnSig
from .ty import (NodeTy, Rec, SeqOf, Unsupported, V, VBool, VDict, VExc, VList, VNone, VOpt, VRec, VTuple, VInt, VStr, VNode,
                 VAny, VOpaque, VConst)


def _frame_diff(ex, cur, old, path, modifies, out):
    if any(path == m or path.startswith(m + ".") for m in modifies):
        return
    if isinstance(cur, VRec) and isinstance(old, VRec):
        for k in cur.fields:
            if k not in old.fields:
                p = f"{path}.{k}"
                if not any(p == m or p.startswith(m + ".") for m in modifies):
                    out.append((p, z3.BoolVal(False)))
                continue
            _frame_diff(ex, cur.fields[k], old.fields[k], f"{path}.{k}", modifies, out)
        return
    try:
        c = simp(eq(cur, old))
    except Unsupported:
        return
    if not z3.is_true(c):
        out.append((path, c))


def verify_contract(ex: Exec, c: api.Contract):
    """Generate all obligations for the function c.target against contract c."""
    finfo = ex.repo.lookup(c.target)
    ex.cur_func = c.target
    ex.top_contract = c  # ghost output streams may be written only if listed in its modifies (pyvc/effects.py)
    a = finfo.node.args
    pnames = [x.arg for x in a.posonlyargs + a.args + a.kwonlyargs]
    if a.vararg or a.kwarg:
        raise Unsupported(f"{c.target}: *args/**kwargs in the function under proof")
    defaults = {}
    pos = a.posonlyargs + a.args
    for x, d in zip(pos[len(pos) - len(a.defaults):], a.defaults):
        defaults[x.arg] = d
    for x, d in zip(a.kwonlyargs, a.kw_defaults):
        if d is not None:
            defaults[x.arg] = d

    def body():
        fr = Frame(finfo.module, finfo)
        fr.contract = c
        params = {}
        for n in pnames:
            ty = c.types.get(n)
            if ty is None and n == "cls" and finfo.kind == "classmethod" and finfo.cls is not None:
                from .ty import VClass
                params[n] = VClass(finfo.cls)  # the class itself (subclass dispatch is not modelled)
                continue
            if ty is None:
                if n in ("self", "cls") and finfo.cls is not None:
                    ty = Rec(finfo.cls.name, cls=finfo.cls.key)
                else:
                    raise Unsupported(f"{c.target}: no type for parameter {n!r} in the contract")
            if isinstance(ty, Rec) and n == "self" and ty.cls is None and finfo.cls is not None:
                ty = ty.with_cls(finfo.cls.key)
            params[n] = ty.fresh(n)
            ex.on_fresh(params[n])
        ex.input_syms = dict(params)
        fr.env.update(params)
        # nested closure under its own contract (target 'outer.inner', free=[...]): the free variables it reads/rebinds
        # (nonlocal) are extra symbolic inputs living in a synthetic enclosing frame; specs name them like parameters
        free = list(c.opts.get("free", ())) if finfo.kind == "nested" else []
        outer = None
        if finfo.kind == "nested":
            from .ty import VFunc as _VFunc
            outer = Frame(finfo.module, None)
            for n in free:
                if n not in c.types:
                    raise Unsupported(f"{c.target}: no type for free variable {n!r} in the contract")
                outer.env[n] = c.types[n].fresh(n)
                ex.on_fresh(outer.env[n])
                params[n] = outer.env[n]
            outer.env[finfo.node.name] = _VFunc(finfo, closure=outer)
            outer.contract = c
            fr.parent = outer
            ex.input_syms = dict(params)
        memo = {}
        old = VRec(Rec("old"), {k: v.clone(memo) for k, v in params.items()})
        from . import effects
        effects.add_old(ex, old.fields)  # old.stdout / old.stderr
        fr.env["__old__"] = old
        entry = {k: old.fields[k] for k in params}
        entry["old"] = old
        if "requires" in c.methods:
            ex.assume(truthy(ex.spec_eval(c, "requires", entry)))
        if "reveals" in c.methods:
            ex.spec_eval(c, "reveals", entry)
        try:
            try:
                ex.exec_block(finfo.node.body, fr)
                ret = VNone()
            except ReturnSig as r:
                ret = r.value
        except RaiseSig as rs:
            for n in free:
                params[n] = outer.env[n]  # current binding of the (possibly rebound) free variables
            cls = rs.exc.cls
            if not any(exc_is(cls, h) for h in c.raises):
                ex.oblige("raises", z3.BoolVal(False), finfo.node.lineno, note=f"undeclared exception {cls} escapes",
                          label=f"raises.undeclared.{cls}")
            elif "raises_when" in c.methods:
                ex.oblige("raises", truthy(ex.spec_eval(c, "raises_when", entry)), finfo.node.lineno,
                          note=f"{cls} raised outside the declared condition", label="raises.only_when")
            _eff = c.opts.get("effects")
            if _eff is not None:
                _bad = [e for e in ex.run.effects if e[0] not in _eff]
                if _bad:
                    ex.oblige("frame", z3.BoolVal(False), finfo.node.lineno, note=f"undeclared effects {_bad}", label="frame.effects")
            for name in sorted(n for n in c.methods if n.startswith("on_raise") or n.startswith("at_exit")):
                vals = dict(params)
                vals["old"] = old
                from .ty import lift as _lift0
                vals["effects"] = _lift0(tuple(e[0] for e in ex.run.effects))  # effects performed on this path so far
                from .ty import VList as _VL, Str as _Str
                vals["written"] = _VL(_Str, items=list(getattr(ex.run, "written", [])))  # texts written to files, in order
                from .ty import lift
                vals["exc_class"] = lift(cls)
                ety = c.opts.get("exc")
                if rs.exc.msg is not None and (ety is None or type(rs.exc.msg) is type(ety.fresh("t"))):
                    vals["exc"] = rs.exc.msg  # the value carried by the exception (exit code of SystemExit)
                elif ety is not None:
                    vals["exc"] = ety.fresh("exc")  # no (typed) payload: arbitrary; clauses guard on exc_class
                if name.startswith("at_exit"):
                    # exit-point assertion: may name locals of the function as ghost witnesses (never assumed by
                    # callers); a local that is not bound at this exit is ARBITRARY (the clause must hold for any value)
                    for x in c.methods[name].args.args:
                        if x.arg in vals or x.arg in ("stdout", "stderr"):
                            continue
                        if fr.lookup(x.arg) is not None:
                            vals[x.arg] = fr.lookup(x.arg)
                        elif x.arg in c.types:
                            vals[x.arg] = c.types[x.arg].fresh(x.arg)
                            ex.on_fresh(vals[x.arg])
                ex.oblige("post", truthy(ex.spec_eval(c, name, vals)), finfo.node.lineno, label=f"post.{name}")
            return
        for name in sorted(n for n in c.methods if n.startswith("at_exit")):
            ex.oblige("post", z3.BoolVal(False), finfo.node.lineno, label=f"post.{name}",
                      note="the function returned normally: an at_exit clause is stated for functions that never return")
        if "raises_when" in c.methods:
            ex.oblige("raises", z3.Not(truthy(ex.spec_eval(c, "raises_when", entry))), finfo.node.lineno,
                      note="returned normally although the contract says it must raise", label="raises.must")
        if c.opts.get("fresh_result"):
            _g = getattr(ret.val if hasattr(ret, "isnone") and hasattr(ret, "val") else ret, "module_global", None)
            # the result must be a fresh object: handing out a module-level mutable container itself lets every caller
            # that mutates "its" result rewrite process-wide state (later calls then see the stale values)
            ex.oblige("post", z3.BoolVal(_g is None), finfo.node.lineno, label="post.result_is_fresh",
                      note="" if _g is None else f"returns the module-level mutable object {_g} itself (not a copy)")
        if c.returns is not None:
            from .ty import VEnum as _VEnum, Str as _StrT, Opt as _OptT, VOpt as _VOptV
            _inner = ret.val if isinstance(ret, _VOptV) else ret
            if (c.returns is _StrT or (isinstance(c.returns, _OptT) and c.returns.inner is _StrT)) and isinstance(_inner, _VEnum):
                # the contract declares a plain str; an Enum member is a different object even when it compares equal:
                # str(), format() and f-strings of it differ ('Class.MEMBER'), so callers that normalise with str() break
                ex.oblige("post", z3.BoolVal(False), finfo.node.lineno, label="post.returns_plain_str",
                          note=f"returns a member of {_inner.enum_ty.name} where the contract declares a plain str")
            ret = ex.adapt_arg(ret, c.returns)
        for n in free:
            params[n] = outer.env[n]  # current binding of the (possibly rebound) free variables
        vals = dict(params)
        vals["old"] = old
        vals["result"] = ret
        from .ty import lift as _lift
        vals.setdefault("caught", _lift(tuple(getattr(ex.run, "caught", []))))  # classes swallowed by handlers on this path
        vals.setdefault("effects", _lift(tuple(e[0] for e in ex.run.effects)))  # effects performed on this path
        from .ty import VList as _VL, Str as _Str
        vals.setdefault("written", _VL(_Str, items=list(getattr(ex.run, "written", []))))  # texts written to files, in order
        def lemma_term(mname):
            # instances of separately proved lemmas (each lemma is its own proof unit), evaluated as ONE term
            ex.lemma_using = 1
            ex.merge_depth += 1
            saved_ctx = len(ex.run.ctx)
            try:
                return truthy(ex.spec_eval(c, mname, vals))
            finally:
                ex.lemma_using = 0
                ex.merge_depth -= 1
                del ex.run.ctx[saved_ctx:]

        if "lemmas" in c.methods:
            ex.assume(lemma_term("lemmas"))
        if "value" in c.methods:
            ex.oblige("post", eq(ret, ex.spec_eval(c, "value", vals)), finfo.node.lineno, label="post.value")
        for name in c.ensures_names():
            lname = "lemmas_" + name[len("ensures_"):] if name.startswith("ensures_") else None
            pushed = 0
            if lname and lname in c.methods:
                ex.run.ctx.append(lemma_term(lname))
                pushed = 1
            try:
                ex.oblige("post", truthy(ex.spec_eval(c, name, vals)), finfo.node.lineno, label=f"post.{name}")
            finally:
                if pushed:
                    ex.run.ctx.pop()
        diffs = []
        for n in pnames + free:
            if n == "cls" and finfo.kind == "classmethod":
                continue
            _frame_diff(ex, params[n], old.fields[n], n, c.modifies, diffs)
        for p, cond in diffs:
            ex.oblige("frame", cond, finfo.node.lineno, note=f"{p} changed but is not in modifies", label=f"frame.{p}")
        eff = c.opts.get("effects")
        if eff is not None:
            bad = [e for e in ex.run.effects if e[0] not in eff]
            if bad:
                ex.oblige("frame", z3.BoolVal(False), finfo.node.lineno, note=f"undeclared effects {bad}", label="frame.effects")

    ex.explore(body)
    return finfo


def verify_lemma(ex: Exec, lem: api.Lemma):
    ex.cur_func = f"lemma:{lem.name}"
    ex.cur_lemma = lem  # use(): only earlier lemmas of the same file may be assumed
    mod = ex.spec_module(lem.module)
    uses_code = any(isinstance(n, ast.Call) and isinstance(n.func, ast.Name) and n.func.id == "call"
                    for n in ast.walk(lem.node))
    from .resolve import FuncInfo
    finfo = FuncInfo(f"{lem.module}::{lem.name}", mod, lem.node)

    def body():
        fr = Frame(mod, finfo, is_spec=True)
        params = {}
        for x in lem.node.args.args:
            ty = lem.types.get(x.arg)
            if ty is None:
                raise Unsupported(f"lemma {lem.name}: no type for {x.arg}")
            params[x.arg] = ty.fresh(x.arg)
            ex.on_fresh(params[x.arg])
        ex.input_syms = dict(params)
        ex.lemma_params = dict(params)
        ex.lemma_using = 0
        fr.env.update(params)
        ex.spec_depth += 1
        try:
            ex.exec_block(lem.node.body, fr)
            raise Unsupported(f"lemma {lem.name} returns nothing")
        except ReturnSig as r:
            # a lemma that applies contracts of real functions (call(...)) carries the property; a pure lemma about
            # spec functions is a proof artefact: if it is false the proof is gone, but nothing is claimed about the code
            ex.oblige("lemma", truthy(r.value), lem.node.lineno, label="lemma", carries=uses_code)
        except RaiseSig as rs:
            ex.oblige("lemma", z3.BoolVal(False), lem.node.lineno, note=f"exception {rs.exc.cls} in lemma", label="lemma.raises")
        finally:
            ex.spec_depth -= 1

    ex.explore(body)


# ---------------------------------------------------------------------------------------------
# discharge
# ---------------------------------------------------------------------------------------------
def _solver(timeout_ms):
    s = z3.Solver()
    s.set("timeout", timeout_ms)
    return s


def discharge(ob: Obligation, timeout_ms=10000, use_cvc5=True, cross_check=False):
    """unsat(pc ∧ ¬goal) => discharged ; sat (validated) => refuted ; else unknown.
    Back ends in order: z3 5.1 (Python API, short first attempt), then on `unknown` the SMT-LIB dump goes to
    /usr/bin/z3 4.8.12 and to cvc5 1.0.3."""
    t0 = time.time()
    g = ob.goal
    if z3.is_true(g):
        ob.verdict, ob.solver, ob.ms = "discharged", "simplifier", 0.0
        return ob
    # wall-clock budgets are stretched when the machine is oversubscribed, so verdicts do not flip under load
    try:
        load = os.getloadavg()[0] / max(1, os.cpu_count() or 1)
    except OSError:
        load = 1.0
    stretch = min(6.0, max(1.0, load)) * float(os.environ.get("PYVC_BUDGET_FACTOR", "1"))
    timeout_ms = int(timeout_ms * stretch)
    first = int(min(timeout_ms, 3000 * stretch))
    from .run import guarded_check
    assertions = list(ob.pc) + [z3.Not(g)]

    def on_sat(m):
        if not _validate_model(m, ob):
            return {"valid": False}
        vals = {}
        for k, v in ob.inputs.items():
            try:
                vals[k] = model_value(m, v)
            except Exception as e:  # noqa
                vals[k] = f"<unrenderable: {e}>"
        return {"valid": True, "inputs": vals}

    def on_unknown(m):
        vals = {}
        for k, v in ob.inputs.items():
            vals[k] = model_value(m, v)
        return vals

    r, payload = guarded_check(assertions, first, on_sat, on_unknown=on_unknown)
    ob.candidate = (payload or {}).get("cand") if r == "unknown" else None
    ob.solver = f"z3-{z3.get_version_string()}"
    if r == "unsat":
        ob.verdict = "discharged"
    elif r == "sat":
        p = (payload or {}).get("p") or {}
        if p.get("valid"):
            ob.verdict = "refuted"
            ob.model = p.get("inputs")
        else:
            ob.verdict = "unknown"
            ob.note += " [z3 model failed validation]"
    else:
        ob.verdict = "unknown"
        why = (payload or {}).get("why", "hard timeout (solver ignored its limit)" if r == "hang" else "")
    from .purify import purify
    s = _solver(first)
    for c in purify(assertions):
        s.add(c)
    if ob.verdict == "unknown" and use_cvc5:
        try:
            smt = s.to_smt2()
        except Exception:
            smt = None
        if smt is not None:
            # the two command-line back ends run side by side; the first decisive answer (sat/unsat) wins
            name, v = _race_cli([("z3-4.8.12", _z3_old_job(smt, timeout_ms)), ("cvc5-1.0.3", _cvc5_job(smt, timeout_ms))],
                                timeout_ms)
            if v == "unsat":
                ob.verdict, ob.solver = "discharged", name
            elif v == "sat":
                ob.verdict, ob.solver = "refuted", name
                ob.note += f" [refuted by {name}; no model extracted]"
    if ob.verdict == "unknown":
        ob.note += f" [z3: {why}]"
    if cross_check and ob.verdict == "discharged" and ob.solver.startswith("z3"):
        # thorough tier: a proof never rests on one solver's say-so (a z3 soundness bug was hit in this project)
        try:
            v = _cvc5(s.to_smt2(), min(timeout_ms, 20000))
        except Exception:  # noqa
            v = "unknown"
        ob.cross = v
        if v == "sat":
            ob.verdict = "unknown"
            ob.note += " [SOLVER-DISAGREEMENT: z3 says unsat, cvc5 says sat]"
    ob.ms = (time.time() - t0) * 1000
    return ob


def _validate_model(m, ob):
    try:
        for c in ob.pc:
            v = m.eval(c, model_completion=True)
            if z3.is_false(v):
                return False
        v = m.eval(ob.goal, model_completion=True)
        if z3.is_true(v):
            return False
        return True
    except z3.Z3Exception:
        return False


def _run_cli(cmd, text, timeout_ms):
    with tempfile.NamedTemporaryFile("w", suffix=".smt2", delete=False) as fh:
        fh.write(text)
        path = fh.name
    try:
        p = subprocess.run(cmd + [path], capture_output=True, text=True, timeout=timeout_ms / 1000 + 5)
        if "(error" in p.stdout or "(error" in p.stderr:
            return "unknown"  # a parse problem must never be read as a verdict
        out = p.stdout.strip().splitlines()
        return out[0] if out and out[0] in ("sat", "unsat") else "unknown"
    except Exception:
        return "unknown"
    finally:
        os.unlink(path)


def _race_cli(jobs, timeout_ms):
    """jobs: [(name, (argv, smt text))]. Runs all solvers concurrently; returns (name, "sat"/"unsat") of the first
    decisive one (the others are killed) or (None, "unknown"). A parse error is never read as a verdict."""
    procs = []
    try:
        for name, (cmd, text) in jobs:
            fh = tempfile.NamedTemporaryFile("w", suffix=".smt2", delete=False)
            fh.write(text)
            fh.close()
            out = tempfile.TemporaryFile("w+")
            try:
                p = subprocess.Popen(cmd + [fh.name], stdout=out, stderr=subprocess.STDOUT, text=True)
            except OSError:
                out.close()
                os.unlink(fh.name)
                continue
            procs.append([name, p, fh.name, out])
        deadline = time.time() + timeout_ms / 1000 + 5
        live = list(procs)
        while live and time.time() < deadline:
            for rec in list(live):
                name, p, path, out = rec
                if p.poll() is None:
                    continue
                live.remove(rec)
                out.seek(0)
                txt = out.read()
                if "(error" in txt:
                    continue
                lines = txt.strip().splitlines()
                if lines and lines[0] in ("sat", "unsat"):
                    return name, lines[0]
            time.sleep(0.02)
        return None, "unknown"
    finally:
        for name, p, path, out in procs:
            if p.poll() is None:
                p.kill()
                try:
                    p.wait(timeout=5)
                except Exception:  # noqa
                    pass
            out.close()
            try:
                os.unlink(path)
            except OSError:
                pass


def _z3_old_job(smt, timeout_ms):
    return ["/usr/bin/z3", f"-T:{max(1, timeout_ms // 1000)}"], _std_nth(smt)


def _cvc5_job(smt, timeout_ms):
    import re
    text = re.sub(r"\(_ ([^ ()]+) 0\)", r"\1", _std_nth(smt))  # z3 5.x prints recursive-function symbols as (_ f 0)
    return ["/usr/bin/cvc5", "--strings-exp", f"--tlimit={timeout_ms}"], "(set-logic ALL)\n" + text


def _std_nth(smt):
    """z3 5.x's simplifier splits seq.nth(s, i) into its internal in-range / out-of-range parts
    (ite(0 <= i < len s, seq.nth_i(s, i), seq.nth_u(s, i))); these symbols are not SMT-LIB: cvc5 rejects them and
    z3 4.8 reads them as fresh uninterpreted functions (bogus `sat`). Both parts are seq.nth on their own range
    (seq.nth out of range is an unspecified function of (s, i), exactly like nth_u), so print them as seq.nth."""
    return smt.replace("seq.nth_i", "seq.nth").replace("seq.nth_u", "seq.nth")


def _z3_old(smt, timeout_ms):
    return _run_cli(["/usr/bin/z3", f"-T:{max(1, timeout_ms // 1000)}"], _std_nth(smt), timeout_ms)


def _cvc5(smt, timeout_ms):
    import re
    smt = _std_nth(smt)
    smt = re.sub(r"\(_ ([^ ()]+) 0\)", r"\1", smt)  # z3 5.x prints recursive-function symbols as (_ f 0)
    return _run_cli(["/usr/bin/cvc5", "--strings-exp", f"--tlimit={timeout_ms}"], "(set-logic ALL)\n" + smt, timeout_ms)


def cover_check(ob: Obligation, timeout_ms=3000):
    """Vacuity guard: the path condition of a discharged obligation must be satisfiable."""
    from .run import guarded_check
    r, _ = guarded_check(list(ob.pc), timeout_ms)
    return r


# ---------------------------------------------------------------------------------------------
# counter-model -> python values
# ---------------------------------------------------------------------------------------------
def model_value(m, v: V, depth=0, mode="full"):
    """Concrete Python rendering of a symbolic input under model m (best effort, JSON-able)."""
    from .ops import _unescape
    from .ty import ValSort
    if depth > 6:
        return "<deep>"
    ev = lambda t: m.eval(t, model_completion=True)
    if isinstance(v, VInt):
        return ev(v.t).as_long()
    if isinstance(v, VBool):
        return z3.is_true(ev(v.t))
    if isinstance(v, VStr):
        t = ev(v.t)
        return _unescape(t.as_string()) if z3.is_string_value(t) else str(t)
    if isinstance(v, VNone):
        return None
    if isinstance(v, VOpt):
        return None if z3.is_true(ev(v.isnone)) else model_value(m, v.val, depth + 1)
    if isinstance(v, VTuple):
        return tuple(model_value(m, x, depth + 1) for x in v.items)
    if isinstance(v, VList):
        if v.items is not None:
            return [model_value(m, x, depth + 1) for x in v.items]
        n = ev(z3.Length(v.seq)).as_long()
        return [model_value(m, v.elem.wrap(v.seq[i]), depth + 1) for i in range(min(n, 12))]
    if isinstance(v, VRec):
        return {"__rec__": v.ty.name, **{k: model_value(m, x, depth + 1) for k, x in v.fields.items()}}
    if isinstance(v, VNode):
        return _node_value(m, v, depth, mode)
    if isinstance(v, VAny):
        t = ev(v.t)
        return _val_to_py(m, t)
    if isinstance(v, VDict):
        return {"__dict_term__": str(ev(v.t))}
    if isinstance(v, VOpaque):
        return {"__opaque__": str(ev(v.t))}
    if isinstance(v, VConst):
        return repr(v.py)
    return repr(v)


def _node_value(m, v, depth, mode):
    """Tree-shaped rendering: children downward (bounded), ancestors/siblings as chains without their subtrees."""
    ev = lambda t: m.eval(t, model_completion=True)
    nty = v.ty
    if z3.is_true(ev(v.t == nty.null)):
        return None
    out = {"__node__": str(ev(v.t))}
    scalars = [a for a, aty in nty.attrs.items() if not isinstance(aty, (NodeTy,)) and not (isinstance(aty, SeqOf) and isinstance(aty.elem, NodeTy))]
    for attr in scalars:
        if attr in nty._funcs:
            try:
                out[attr] = model_value(m, nty.attrs[attr].wrap(nty._funcs[attr](v.t)), depth + 1)
            except Exception as e:  # noqa
                out[attr] = f"<{e}>"
    if mode in ("full", "down") and depth < 5:
        for attr, aty in nty.attrs.items():
            if isinstance(aty, SeqOf) and isinstance(aty.elem, NodeTy) and attr in nty._funcs:
                seq = nty._funcs[attr](v.t)
                n = ev(z3.Length(seq)).as_long()
                out[attr] = [_node_value(m, VNode(seq[i], nty), depth + 1, "down") for i in range(min(n, 6))]
    if mode in ("full", "up") and depth < 8:
        for attr, aty in nty.attrs.items():
            if isinstance(aty, NodeTy) and attr in nty._funcs:
                out[attr] = _node_value(m, VNode(nty._funcs[attr](v.t), nty), depth + 1, "up" if mode == "up" or attr == "parent" else "side")
    return out


def _val_to_py(m, t):
    from .ty import ValSort
    from .ops import _unescape
    d = t.decl().name() if z3.is_app(t) else ""
    if d == "I":
        return t.arg(0).as_long()
    if d == "B":
        return z3.is_true(t.arg(0))
    if d == "S":
        return _unescape(t.arg(0).as_string())
    if d == "NoneV":
        return None
    if d == "Absent":
        return "<absent>"
    return str(t)
