#!/bin/sh
# Builds /verif/.venv offline: python 3.12 venv overlaying /venv's site-packages (repo deps) plus z3/cvc5/crosshair from the wheelhouse.
set -e
cd "$(dirname "$0")"
if [ -x .venv/bin/python ] && .venv/bin/python -c "import z3, yaml, jsonschema" 2>/dev/null; then exit 0; fi
rm -rf .venv
/venv/bin/python -m venv .venv
PIP_NO_INDEX=1 .venv/bin/pip install -q --no-index --find-links /opt/veriftools/wheels z3-solver cvc5 crosshair-tool deal icontract jsonschema hypothesis
echo "import site; site.addsitedir('/venv/lib/python3.12/site-packages')" > .venv/lib/python3.12/site-packages/_repo_overlay.pth
.venv/bin/python -c "import z3, yaml, click, tree_sitter, jsonschema; print('venv ok', z3.get_version_string())"
