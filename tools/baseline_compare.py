#!/usr/bin/env python3
"""Compare a junit xml against /root/.vp/BASELINE.json stable_pass. usage: baseline_compare.py junit.xml"""
import json, sys, xml.etree.ElementTree as ET
b = json.load(open('/root/.vp/BASELINE.json'))
stable = set(b['stable_pass'])
res = {}
for tc in ET.parse(sys.argv[1]).iter('testcase'):
    res[f"{tc.get('classname')}::{tc.get('name')}"] = not any(ch.tag in ('failure', 'error', 'skipped') for ch in tc)
missing = sorted(s for s in stable if not res.get(s, False))
print(f"stable={len(stable)} ran={len(res)} stable-not-passing={len(missing)}")
for m in missing[:40]:
    print("  ", m)
sys.exit(1 if missing else 0)
