#!/usr/bin/env python3
"""Prints the as-built per-property table (from evidence/*.json and known_findings.json) as markdown."""
import json, glob, os
root = os.path.join(os.path.dirname(os.path.abspath(__file__)), "..")
kf = json.load(open(os.path.join(root, "known_findings.json")))
open_by = {}
for f in kf["findings"]:
    if f.get("status", "open") == "open":
        open_by.setdefault(f["property"], []).append(f["id"])
fixed_by = {}
for f in kf["fixed"]:
    s = f if isinstance(f, str) else json.dumps(f)
    p = s.split("property=")[1].split()[0] if "property=" in s else "?"
    fixed_by[p] = fixed_by.get(p, 0) + 1
print("| id | level | functions under contract | obligations discharged | lemmas/custom units | assumed contracts | bounded checks | open findings | fixed |")
print("|---|---|---|---|---|---|---|---|---|")
tot_ob = tot_fn = 0
for path in sorted(glob.glob(os.path.join(root, "evidence", "C*.json"))):
    e = json.load(open(path)); c = e["coverage"]; pid = e["property_id"]
    fns = [f for f in c.get("functions", []) if f.get("kind") == "contract"]
    other = [f for f in c.get("functions", []) if f.get("kind") != "contract"]
    tot_ob += c.get("discharged", 0); tot_fn += len(fns)
    print(f"| {pid} | {e['level']} | {len(fns)} | {c.get('discharged')}/{c.get('obligations')} | {len(other)} | {len(c.get('assumed_contracts', []))} | {len(c.get('bounded', []))} | {len(open_by.get(pid, []))} | {fixed_by.get(pid, 0)} |")
print(f"\nTotals: {tot_fn} function-contract units (a function may serve several properties), {tot_ob} obligations discharged.")
