import sys, time, z3
import os; sys.path.insert(0, os.path.dirname(os.path.dirname(os.path.abspath(__file__))))
from pyvc import api
from pyvc.resolve import Repo
from pyvc.ex import Exec
from pyvc.verify import verify_contract, discharge, model_value
import importlib
mod = sys.argv[1]
importlib.import_module(mod)
import os; repo = Repo(os.environ.get('VERIF_REPO','/repo'))
for key, c in api.REGISTRY.items():
    if len(sys.argv) > 2 and sys.argv[2] not in key: continue
    if c.assumed: continue
    ex = Exec(repo, '/verif')
    t0 = time.time()
    try:
        verify_contract(ex, c)
    except Exception as e:
        import traceback; traceback.print_exc()
        print("FAILED", key, type(e).__name__, e); continue
    print(f"== {key}: {len(ex.obligations)} obligations, {ex.paths} paths, {time.time()-t0:.2f}s")
    for ob in ex.obligations:
        discharge(ob)
        print(f"   {ob.verdict:10s} {ob.ms:7.1f}ms {ob.name}  {ob.note}")
        if ob.verdict == 'refuted' and ob.model is not None:
            print("      model:", ob.model)
        if ob.verdict != 'discharged' and '--show' in sys.argv:
            print("      pc:", [str(z3.simplify(c)) for c in ob.pc]); print("      goal:", str(ob.goal)[:1500])
