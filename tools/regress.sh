#!/bin/sh
# Runs every registered check on the unchanged tree; prints one summary line per property. Use after engine edits.
cd "$(dirname "$0")/.."
for p in $(python3 -c "import json;print(' '.join(c['property_id'] for c in json.load(open('MANIFEST.json'))['checks']))"); do
  out=$(./check $p 2>&1 | tail -1); echo "$out"
done
