#!/bin/sh
# usage: tools/seed_campaign.sh [seed names...]   -- runs each seeded change against its property's check on a scratch worktree
# (VERIF_REPO), records exit code and VIOLATION/UNDECIDED lines under seeded/<name>/result.txt
cd "$(dirname "$0")/.."
# a private worktree per invocation (concurrent campaigns must not reset each other's patched tree)
WT=/tmp/seedrun_$$
git -C /repo worktree add -q --detach $WT HEAD
trap 'git -C /repo worktree remove --force $WT >/dev/null 2>&1' EXIT INT TERM
names="$@"; [ -z "$names" ] && names=$(ls seeded | grep -E '^C[0-9]+-(r[0-9]+)?m[0-9]+$')
for n in $names; do
  p=${n%%-*}
  git -C $WT checkout -q -- . ; git -C $WT apply "$PWD/seeded/$n/patch.diff" || { echo "$n: patch does not apply"; continue; }
  VERIF_REPO=$WT timeout -s KILL 1500 ./check $p > /tmp/seedrun_$n.out 2>&1; rc=$?
  { echo "check=$p exit=$rc"; grep -E "^VIOLATION|^UNDECIDED|^CRASH|^ENGINE|-> exit" /tmp/seedrun_$n.out | cut -c1-300 | head -12; } > seeded/$n/result.txt
  echo "$n exit=$rc $(grep -c '^VIOLATION' /tmp/seedrun_$n.out) violation line(s)"
  git -C $WT checkout -q -- .
done
