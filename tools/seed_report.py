#!/usr/bin/env python3
"""Aggregates seeded/<name>/{meta.json,result.txt,validation.txt} into seeded/RESULTS.md (which check catches which change)."""
import json, os, re, glob
root = os.path.join(os.path.dirname(os.path.abspath(__file__)), "..", "seeded")
rows = []
for d in sorted(glob.glob(os.path.join(root, "C*-*m[0-9]"))):
    name = os.path.basename(d)
    meta = json.load(open(os.path.join(d, "meta.json")))
    res = open(os.path.join(d, "result.txt")).read() if os.path.exists(os.path.join(d, "result.txt")) else ""
    m = re.search(r"exit=(\d+)", res)
    rc = m.group(1) if m else "?"
    viol = [l for l in res.splitlines() if l.startswith("VIOLATION")]
    obl = sorted({re.sub(r"_\d+\.json.*$", "", os.path.basename(v.split("replay=")[1].split()[0])) for v in viol})
    conf = sum(1 for v in viol if "no-failing-input-found" not in v)
    val = open(os.path.join(d, "validation.txt")).read().strip() if os.path.exists(os.path.join(d, "validation.txt")) else ""
    rows.append((name, meta.get("property", name.split("-")[0]), (meta.get("summary") or "")[:160].replace("\n", " ").replace("|", "/"),
                 (meta.get("needs") or "")[:140].replace("\n", " ").replace("|", "/"), rc, len(viol), conf, "; ".join(obl)[:200], val))
with open(os.path.join(root, "RESULTS.md"), "w") as fh:
    fh.write("# Seeded changes and the checks that catch them\n\n"
             "Each change was produced by an independent sub-agent that saw only the property text and a scratch worktree; it keeps the\n"
             "2116 stable tests green and its demo.py exits 0 on the unchanged tree and 1 on the changed tree (column `validated`).\n"
             "`check exit`: result of `./check <property>` on a scratch worktree with the patch applied (1 = VIOLATION, 2 = undecided only, 0 = missed).\n\n"
             "| seed | what it changes | needs | check exit | VIOLATION lines (with replayed input) | refuted obligations | validated |\n|---|---|---|---|---|---|---|\n")
    for r in rows:
        fh.write(f"| {r[0]} | {r[2]} | {r[3]} | {r[4]} | {r[5]} ({r[6]}) | {r[7]} | {r[8]} |\n")
    caught = sum(1 for r in rows if r[4] == "1")
    fh.write(f"\n{caught} of {len(rows)} seeded changes end in exit 1 with a VIOLATION line.\n")
print(open(os.path.join(root, "RESULTS.md")).read()[-300:])
