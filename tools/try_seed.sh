#!/bin/sh
# usage: tools/try_seed.sh <seed dir with patch.diff> <PROP> [more props]  -- applies the patch to /repo, runs the checks, reverts.
d=$(cd "$1" && pwd); shift
cd "$(dirname "$0")/.."
git -C /repo diff --quiet || { echo "/repo working tree not clean"; exit 9; }
git -C /repo apply "$d/patch.diff" || { echo "patch does not apply"; exit 9; }
for p in "$@"; do
  timeout -s KILL 900 ./check $p > /tmp/try_seed_$p.out 2>&1; rc=$?
  echo "== $p exit=$rc"; grep -E "^VIOLATION|^UNDECIDED|^CRASH|^ENGINE|-> exit" /tmp/try_seed_$p.out | cut -c1-260 | head -8
done
git -C /repo checkout -- . 
