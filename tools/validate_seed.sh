#!/bin/sh
# usage: tools/validate_seed.sh <worktree> <seed dir>  -- demo exits 0 clean / 1 mutated; stable tests pass with the patch.
wt=$1; d=$2
cd $wt && git checkout -q -- src && cp $d/demo.py ./_demo.py
/venv/bin/python _demo.py >/dev/null 2>&1; echo "demo clean exit=$?"
git apply $d/patch.diff || { echo "patch does not apply"; exit 9; }
/venv/bin/python _demo.py >/tmp/demo_mut.out 2>&1; echo "demo mutated exit=$?"; tail -2 /tmp/demo_mut.out
timeout 1500 /venv/bin/python -m pytest -q -p no:cacheprovider --timeout=900 --continue-on-collection-errors --junitxml=/tmp/junit_seed.xml >/dev/null 2>&1
/verif/tools/baseline_compare.py /tmp/junit_seed.xml | head -5
git checkout -q -- src; rm -f _demo.py
